#!/usr/bin/env python3
"""Regenerates MANIFEST.json (kept in one place so that it stays consistent)."""
import json, subprocess
hooks = subprocess.check_output(['git','-C','/repo','log','--format=%H %s']).decode().splitlines()
hook_commits = [l.split()[0] for l in hooks if l.split(' ',1)[1].startswith('verif:')]
claimed = {
 "C03": ("exploration","hist","Seeded search over single-session histories (DDL incl. views/indexes/functions, INSERT, INSERT..SELECT, DELETE, simulated-time compaction+vacuum passes, 1-4 clean shutdown+reopen cycles) on the real on-disk engine with swarm-drawn storage options; after each reopen every table's definition (pg_attribute) and row multiset is compared with its state before shutdown, dropped tables must stay dropped, and post-reopen statements must be accepted. Evidence, not proof: thousands of distinct histories per run. After each reopen the rows are also compared with the model of the acknowledged history (the property's quantifier); histories contain odd DDL (reserved column name, no columns, duplicate column, a table in pg_catalog) and multi-table DROPs.","4"),
 "C05": ("exploration","hist","Twin run: one seeded statement stream (incl. deliberately invalid statements) is driven into new_in_memory() and new_on_disk(knobs); the disk twin additionally gets simulated-time compaction passes and reopens. The stream includes joins on primary keys of all kinds (merge join on disk), semi/anti joins, GROUP BY / ORDER BY on keys, mixed integer key widths, table-constraint keys, SMALLINT/DECIMAL/DATE columns. After every statement Ok/Err and result multisets (sequences on ORDER BY keys) must agree.","4"),
 "C07": ("exploration","hist","Seeded histories over {INSERT batch, DELETE WHERE p, advance clock past the compactor timer, vacuum, reopen} with row-set sizes forcing several row-sets and partial compactions; after every step every table is compared with a multiset model, DELETE counts are checked, results across each compaction pass are compared, sorted storage scans are checked for key order.","4"),
 "C08": ("exploration","sched","Concurrent actors - 1-2 storage-level readers (open scan, fetch batches of seeded sizes), 2-3 writer sessions (INSERT, DELETE, DROP TABLE), the real compactor and vacuum tasks - run as tokio tasks on the single simulator thread and park at harness gates and guarded in-engine gates; a seeded scheduler releases exactly one parked actor or advances the simulated clock per decision after quiescence. Each reader's rows must equal the model state of the statements acknowledged before its pin plus some subset of those in flight around it; no reader call may fail; no row-set directory of the version a reader pinned (per the manifest at pin time) may be unlinked while it runs.","4"),
 "C09": ("exploration","sched","2-4 sessions issue INSERT / DELETE on 2-3 tables while compactor passes are parked and released at 'pass begin / table locked / selected / inputs opened / inputs read / before commit / committed' and commits at 'manifest locked / before append / after append'; after all actors finish, every table's multiset must be the result of some order of the acknowledged statements respecting session order (exhaustive search with memoisation, <= 14 statements), and must be unchanged by shutdown + reopen.","4"),
 "C10": ("exploration","sched","2-4 sessions x <= 4 statements from {CREATE TABLE / DROP TABLE incl. same names, INSERT VALUES, DELETE WHERE, SELECT count(*)} interleaved at statement, bind, pin, commit and DDL gates; oracles: no session or background task panics, no process abort, no deadlock (progress within 5 simulated seconds once gates are opened), existence of a total order of the acknowledged statements respecting session order that reproduces every SELECT result and the final state (histories that are only explained by statement-level snapshot isolation are classified separately), shutdown + reopen succeeds and shows the same state. Multi-threaded preemption inside a poll is not explored. Since round 9-12: the row count a DELETE reports is a result the order must reproduce; a statement on a table nobody creates or drops must not fail because of DDL on other tables; one INSERT..SELECT per run (from another table, so rows stay unique) must become visible as a whole; the snapshot-isolation explanation covers DELETE and INSERT..SELECT.","4"),
 "C12": ("exploration","hist","Seeded layout histories (several row-sets, DVs, compactions, reopen) with ORDER BY / LIMIT / OFFSET queries at query points, each checked against the engine's own unordered result: K-sorted, permutation, slice [m..m+n] on K, unordered LIMIT count and containment. Extra probes per ordered query: the key not in the select list, the key named by position (ORDER BY 1), explicit NULLS FIRST/LAST (honoured or refused), the cut spelled OFFSET m ROWS FETCH FIRST n ROWS ONLY, a filter above the LIMIT; one run in twelve uses a table of more than 1100 rows.","4"),
 "C04": ("fault_enumeration","crash","A seeded history is executed once on the real on-disk engine with every mutating syscall journalled at the libc boundary (so a removed or reordered fsync/write/rename is seen as the kernel would see it); crash images are then derived from the journal for crash indexes x torn lengths of the write in flight x durability model (everything issued / un-synced file tails cut or zero-filled / directory entries and renames not covered by an fsync of their directory lost) x one-level crash during recovery; each image is recovered with Database::new_on_disk and must equal the model of the acknowledged prefix with or without the statement in flight, accept new statements (insert, full or one-row delete, create) whose effect must survive one more reopen, and a second recovery must agree. Thorough enumerates every index and every byte of manifest writes.","4"),
 "C15": ("fault_enumeration","fault","For each statement under test (filtered scans, aggregates, ORDER BY/LIMIT, joins, INSERT VALUES, INSERT..SELECT, DELETE) a fault-free execution on a twin database records rows and per-operator item counts; then (operator, item index, error|panic) faults are injected through the guarded hook in the per-operator output loop, one per execution, and I/O faults (EIO, ENOSPC, EINTR, short transfer) on the n-th syscall of a given class and file; reads are faulted on a cold copy. One run in forty is a COPY FROM scenario (well-formed file / a field that fails to parse / a field whose parsing panics the reader thread, at the first, last, a chunk-edge or a random line): Err and an unchanged table, or Ok and every line; that run uses the real blocking pool (the reader blocks on the runtime), its verdict does not depend on thread timing. A statement in which a fault fired must not return Ok with different rows; a failed INSERT/DELETE must leave its table unchanged in the running instance and in a reopened copy of the directory; an acknowledged one must be durable.","4"),
 "C18": ("fault_enumeration","corrupt","A seeded database is built with CRC32 checksums (default_for_cli), then single at-rest corruptions of every .col/.idx file are enumerated (bit flip, byte overwrite, zero-filled sector, truncation at first/last/middle/trailer/footer/seeded positions) x read order (corrupt then open; open, cache, corrupt; open, corrupt, read; open, read and verify every block, corrupt, drop the block cache through a guarded hook = cache pressure, read again) x optional compaction pass over damaged data; with the compaction variant a row is inserted into every table first so that the damaged row-set is really merged; every table is read three times by SELECT *, then by count(*) and two single-column selects, and each read must fail or return exactly the original rows. A same-sized sibling file's content is one more corruption kind in the runs that do not steer around known findings.","4"),
 "C13": ("exploration","hist","Seeded layout histories on tables with a primary key of any type at any position, tiny blocks, with key-range queries at query points; each is compared with the same query under PRAGMA disable_optimizer (no pushdown), with the model, and at storage level scan(range) vs scan()+filter. Keys and bounds also sit at the ends of the key type's range; one run in ten writes without first keys and switches the option at every reopen; one run in twelve uses a table of more than 1100 rows.","4"),
}
tech = {
 "sched": "deterministic simulation: seeded scheduler over gated concurrent actors (sessions, readers, compactor, vacuum) on a paused clock, serial-order / snapshot checker against a reference model",
 "fault": "deterministic simulation: enumerated operator-level error/panic injection and syscall-level I/O fault injection, twin-database oracle",
 "crash": "deterministic simulation: syscall-journal-derived crash images (torn writes, lost or zero-filled un-synced tails, lost un-synced directory entries, crash during recovery) checked against a reference model",
 "corrupt": "deterministic simulation: enumerated at-rest disk corruption x read order, results compared with pristine reads",
 "hist": "deterministic simulation: seeded history search with simulated clock (compaction/vacuum), reopen events and a reference model",
}
checks = []
for pid,(lvl,eng,text,sec) in claimed.items():
    checks.append({
        "property_id": pid,
        "quick_cmd": f"./check {pid} quick",
        "thorough_cmd": f"./check {pid} thorough",
        "evidence_file": f"/verif/evidence/{pid}.json",
        "replay_cmd_template": f"./check {pid} --replay {{path}}",
        "engine": eng,
        "level_claimed": {"category": lvl, "text": text, "design_ref": f"DESIGN.md section {sec}"},
        "level_note": "Trusted base: the simulator (rlsim: libc interposition journal with per-run self-check, tokio paused clock, fork-per-run supervisor), the reference model (model.rs), rustc. Assumes interleavings at await/gate granularity on one thread (defects that need real parallelism are out of reach: three such defects were found by stress tests in /verif/extra instead); file-system model: un-synced file tails and directory entries not covered by an fsync of their directory may be lost, the database root directory itself is durable, no reordering between fsynced operations.",
        "technique": tech[eng],
    })
pure = {
 "C01": "pure function of (query, data, statistics): no schedule, clock, crash or fault to simulate; differential query generation would be a different technique",
 "C02": "pure function of (query, data) against an external SQL reference; nothing for a simulator to schedule or break",
 "C06": "encode/decode of an array under seek/skip patterns is a sequential pure function; no fault or interleaving in it",
 "C11": "same inputs into alternative executors: pure; chunk arrival order is not what the property quantifies over",
 "C14": "row-wise kernel semantics: pure function of the batch",
 "C16": "static type vs runtime type and insert-time constraints: pure function of the statement",
 "C17": "planner well-formedness and termination: pure function of (statement, statistics)",
 "C19": "algebraic laws on values: pure",
 "C20": "COPY TO awaits its writer before acknowledging and COPY FROM reads a closed file: the round-trip is a pure function of (rows, options)",
}
pending = {
 "C04": "crash engine not built yet in this snapshot (planned, DESIGN.md section 4)",
 "C08": "sched engine not built yet in this snapshot (planned, DESIGN.md section 4)",
 "C09": "sched engine not built yet in this snapshot (planned, DESIGN.md section 4)",
 "C10": "sched engine not built yet in this snapshot (planned, DESIGN.md section 4)",
 "C15": "fault engine not built yet in this snapshot (planned, DESIGN.md section 4)",
 "C18": "corrupt engine not built yet in this snapshot (planned, DESIGN.md section 4)",
}
na = [{"property_id":k,"reason":v} for k,v in {**pure, **{k:v for k,v in pending.items() if k not in claimed}}.items()]
na.sort(key=lambda x:x["property_id"])
m = {
 "version": 1,
 "setup_cmd": "cd /verif/sim && CARGO_NET_OFFLINE=true cargo build --offline",
 "hooks": {
   "guard": "--cfg risinglight_verif",
   "enable": "the harness crate /verif/sim depends on /repo by path and builds it with RUSTFLAGS '--cfg tokio_unstable --cfg risinglight_verif' (sim/.cargo/config.toml)",
   "baseline_off_cmd": "cd /repo && cargo test --workspace --no-fail-fast --offline",
   "source_commits": hook_commits,
   "add_only": True,
 },
 "engines": [
   {"name":"crash","path":"/verif/sim/src/crash.rs","serves_properties":["C04"],"kind_free_text":"libc-interposition journal, crash-image enumeration and recovery against a model"},
   {"name":"corrupt","path":"/verif/sim/src/corrupt.rs","serves_properties":["C18"],"kind_free_text":"at-rest corruption enumeration x read order"},
   {"name":"fault","path":"/verif/sim/src/fault.rs","serves_properties":["C15"],"kind_free_text":"operator and I/O fault enumeration against a fault-free twin"},
   {"name":"sched","path":"/verif/sim/src/sched.rs","serves_properties":["C08","C09","C10"],"kind_free_text":"gated-actor scheduler simulation with serial-order checker"},
   {"name":"hist","path":"/verif/sim/src/hist.rs","serves_properties":["C03","C05","C07","C12","C13"],"kind_free_text":"seeded single-session history simulation (simulated clock, compaction/vacuum passes, reopen) with reference model and twin-engine oracles"},
 ],
 "checks": checks,
 "not_applicable": na,
 "notes": "All checks are `./check <ID> quick|thorough`; they rebuild /verif/sim (and thereby /repo with hooks on) first. Exit 0 = held (KNOWN-FINDING lines allowed), 1 = VIOLATION line with replay file, 2 = harness error. Known findings: /verif/known_findings.json.",
}
json.dump(m, open('/verif/MANIFEST.json','w'), indent=1)
print("ok", len(checks), "checks,", len(na), "n/a")
