//! BASELINE defect (unchanged code), multi-thread runtime only: a view that is referenced twice
//! in one statement has ONE producer task and two subscribers (`Builder::views`,
//! `StreamSubscriber::subscribe` -> `InactiveReceiver::activate_cloned`). The first `subscribe()`
//! makes the channel active, the producer (already running on another worker) broadcasts at
//! once, and the second `subscribe()` - a few microseconds later, still inside `build_id` -
//! starts at the TAIL of the queue: it never sees the items broadcast in between, neither
//! chunks nor an `Err`.
//!
//! Copy to tests/ and run: cargo test --offline --test baseline_view_subscribe -- --nocapture

use risinglight::Database;

fn first(c: &[risinglight::array::Chunk]) -> String {
    c[0].get_first_data_chunk().array_at(0).get_to_string(0)
}

/// No fault at all: rows are missing from a successful result.
#[tokio::test(flavor = "multi_thread", worker_threads = 4)]
async fn view_referenced_twice_loses_rows() {
    let db = Database::new_in_memory();
    db.run("CREATE TABLE t (x INT)").await.unwrap();
    let values = (0..500).map(|i| format!("({i})")).collect::<Vec<_>>();
    db.run(&format!("INSERT INTO t VALUES {}", values.join(",")))
        .await
        .unwrap();
    db.run("CREATE VIEW v (x) AS SELECT x FROM t").await.unwrap();
    let mut wrong = vec![];
    for _ in 0..100 {
        let got = first(
            &db.run("SELECT count(*) FROM v a JOIN v b ON a.x = b.x")
                .await
                .unwrap(),
        );
        if got != "500" {
            wrong.push(got);
        }
    }
    assert!(wrong.is_empty(), "{} of 100 runs wrong: {:?}", wrong.len(), &wrong[..wrong.len().min(5)]);
}

/// C15: the operator under the view fails (CAST of 'x'), the statement returns Ok.
#[tokio::test(flavor = "multi_thread", worker_threads = 4)]
async fn view_referenced_twice_loses_error() {
    let db = Database::new_in_memory();
    db.run("CREATE TABLE strs (s VARCHAR)").await.unwrap();
    db.run("INSERT INTO strs VALUES ('1'), ('x')").await.unwrap();
    db.run("CREATE VIEW w (y) AS SELECT CAST(s AS INT) FROM strs")
        .await
        .unwrap();
    assert!(db.run("SELECT count(*) FROM w").await.is_err());
    let sql = "SELECT count(*) FROM (SELECT y FROM w LIMIT 0) a RIGHT JOIN w b ON a.y = b.y";
    let mut oks = vec![];
    for _ in 0..100 {
        if let Ok(c) = db.run(sql).await {
            oks.push(first(&c));
        }
    }
    assert!(oks.is_empty(), "{} of 100 runs returned Ok: {:?}", oks.len(), &oks[..oks.len().min(5)]);
}
