//! Stress test on a multi-threaded runtime: a statement naming a table that another session is
//! dropping at that instant must fail with an error, never panic its session.
//! (copy to <risinglight>/tests/ and run `cargo test --offline --test mt_bind_vs_drop`)
use std::sync::Arc;
use std::sync::atomic::{AtomicBool, Ordering};

use risinglight::Database;

#[tokio::test(flavor = "multi_thread", worker_threads = 4)]
async fn statements_on_a_table_being_dropped_do_not_panic() {
    let db = Arc::new(Database::new_in_memory());
    let stop = Arc::new(AtomicBool::new(false));
    let ddl = {
        let (db, stop) = (db.clone(), stop.clone());
        tokio::spawn(async move {
            while !stop.load(Ordering::Relaxed) {
                let _ = db.run("create table t (a int, b int)").await;
                let _ = db.run("drop table t").await;
            }
        })
    };
    let mut sessions = vec![];
    for s in 0..3 {
        let (db, stop) = (db.clone(), stop.clone());
        sessions.push(tokio::spawn(async move {
            let mut panics = vec![];
            let mut n = 0u64;
            while !stop.load(Ordering::Relaxed) {
                let sql = if s == 0 { "select a, b from t" } else { "insert into t values (1, 2)" };
                let db2 = db.clone();
                // each statement in its own task, so that a panic is observed, not propagated
                let r = tokio::spawn(async move { db2.run(sql).await.map(|_| ()) }).await;
                n += 1;
                if let Err(e) = r {
                    if e.is_panic() {
                        panics.push(format!("session {s}, statement #{n} ({sql}) panicked"));
                        if panics.len() >= 3 {
                            break;
                        }
                    }
                }
            }
            (n, panics)
        }));
    }
    tokio::time::sleep(std::time::Duration::from_secs(20)).await;
    stop.store(true, Ordering::Relaxed);
    let _ = ddl.await;
    let mut all = vec![];
    let mut total = 0;
    for h in sessions {
        let (n, p) = h.await.unwrap();
        total += n;
        all.extend(p);
    }
    assert!(all.is_empty(), "{total} statements, panics: {all:#?}");
}
