//! Stress test on a multi-threaded runtime: every acknowledged single-row INSERT must be stored.
use std::sync::Arc;

use risinglight::Database;
use risinglight::storage::SecondaryStorageOptions;

#[tokio::test(flavor = "multi_thread", worker_threads = 4)]
async fn acknowledged_inserts_are_stored_on_disk() {
    let dir = tempfile::tempdir().unwrap();
    let mut opts = SecondaryStorageOptions::default_for_cli();
    opts.path = dir.path().join("db");
    let db = Arc::new(Database::new_on_disk(opts).await);
    let mut hs = vec![];
    for s in 0..4 {
        let db = db.clone();
        hs.push(tokio::spawn(async move {
            db.run(&format!("create table t{s} (a int, b int)")).await.unwrap();
            let n = 60;
            let mut bad = vec![];
            for i in 0..n {
                db.run(&format!("insert into t{s} values ({i}, {i})")).await.unwrap();
                let out = db.run(&format!("select count(*) from t{s}")).await.unwrap();
                let got = risinglight::array::datachunk_to_sqllogictest_string(&out[0]);
                if got != vec![vec![(i + 1).to_string()]] {
                    bad.push(format!("session {s}: {} INSERTs acknowledged, count(*) = {got:?}", i + 1));
                    break;
                }
            }
            bad
        }));
    }
    let mut bad = vec![];
    for h in hs {
        bad.extend(h.await.unwrap());
    }
    db.shutdown().await.unwrap();
    assert!(bad.is_empty(), "{}", bad.join("; "));
}
