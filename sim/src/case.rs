//! A case is one fully explicit simulated run: knobs, workload, schedule decisions and faults.
//! Generated cases come from a seed; replay files are serialized cases.

use std::collections::BTreeMap;

use serde::{Deserialize, Serialize};

use crate::genr::Step;
use crate::interpose::{Class, Fault};
use crate::model::Stmt;
use crate::world::Knobs;

#[derive(Clone, Debug, Serialize, Deserialize, PartialEq)]
pub struct CrashPoint {
    /// Number of journal entries fully applied.
    pub k: usize,
    /// If entry k is a write: how many of its bytes made it (None = entry k not started).
    pub torn: Option<usize>,
    /// Durability model: false = everything issued is on disk (prefix),
    /// true = un-synced file tails may be cut (seeded choice per file).
    pub lose_unsynced: bool,
    /// Seed for the per-file tail choices of the lose_unsynced model.
    pub tail_seed: u64,
    /// Crash again during recovery after this many recovery journal entries.
    pub second: Option<usize>,
    /// Directory entries (creations, renames) not made durable by an fsync of their directory
    /// are lost: 0 = no, 1 = all of them, 2 = a seeded subset.
    #[serde(default)]
    pub lose_dirents: u8,
    /// With `lose_unsynced`: one 4 KiB page inside the un-synced end of a file never reached
    /// the disk (zero-filled) although a later page did.
    #[serde(default)]
    pub hole: bool,
}

#[derive(Clone, Debug, Serialize, Deserialize, PartialEq)]
pub struct OpFaultSpec {
    /// Index of the statement (in `steps`) the fault is armed for.
    pub step: usize,
    pub op: String,
    pub idx: usize,
    /// "error" | "panic"
    pub kind: String,
}

#[derive(Clone, Debug, Serialize, Deserialize, PartialEq)]
pub struct IoFaultSpec {
    pub step: usize,
    /// n-th call of class `class` on `path` within the statement.
    pub nth: u64,
    pub class: Class,
    /// Path relative to the database directory.
    #[serde(default)]
    pub path: String,
    /// Disk full: from the `nth` call of the statement on, every write / mkdir / file creation
    /// fails with ENOSPC until the statement returns (class and path are ignored).
    #[serde(default)]
    pub sticky: bool,
    pub kind: crate::interpose::FaultKind,
}

#[derive(Clone, Debug, Serialize, Deserialize, PartialEq)]
pub struct Corruption {
    /// File path relative to the database root.
    pub file: String,
    /// "flip" (bit `bit` of byte `pos`), "byte" (overwrite with `val`), "zero512" (zero-filled
    /// sector containing `pos`), "truncate" (to `pos` bytes)
    pub kind: String,
    pub pos: u64,
    pub bit: u8,
    pub val: u8,
    /// 0 = corrupt, then open the database (cold read);
    /// 1 = open, query every table (blocks cached), corrupt, query again;
    /// 2 = open, corrupt before any read, query;
    /// 3 = open, query every table (every block read and verified once), corrupt, drop the
    ///     block cache (cache pressure), query again.
    pub mode: u8,
    /// Let a compaction pass run over the corrupted data before the final queries.
    pub compact_after: bool,
}

#[derive(Clone, Debug, Default, Serialize, Deserialize, PartialEq)]
pub struct Case {
    pub prop: String,
    pub seed: u64,
    pub knobs: Option<Knobs>,
    /// Single-session history (hist / crash / fault / corrupt engines).
    #[serde(default)]
    pub steps: Vec<Step>,
    /// Setup statements run before concurrent sessions start (sched engine).
    #[serde(default)]
    pub setup: Vec<Stmt>,
    /// Concurrent sessions (sched engine).
    #[serde(default)]
    pub sessions: Vec<Vec<Stmt>>,
    /// Schedule decisions; any vector is valid (index modulo enabled-set size, 0 past the end).
    #[serde(default)]
    pub decisions: Vec<u32>,
    /// Gate sites that park in this run.
    #[serde(default)]
    pub sites: Vec<String>,
    #[serde(default)]
    pub crash_points: Vec<CrashPoint>,
    #[serde(default)]
    pub op_faults: Vec<OpFaultSpec>,
    #[serde(default)]
    pub io_faults: Vec<IoFaultSpec>,
    #[serde(default)]
    pub raw_faults: Vec<Fault>,
    #[serde(default)]
    pub corruptions: Vec<Corruption>,
    /// Free-form small integer parameters of an engine.
    #[serde(default)]
    pub params: BTreeMap<String, i64>,
}

impl Case {
    pub fn knobs(&self) -> Knobs {
        self.knobs.clone().unwrap_or_else(Knobs::default_cli)
    }
    pub fn param(&self, k: &str, default: i64) -> i64 {
        self.params.get(k).copied().unwrap_or(default)
    }
}

#[derive(Clone, Debug, Serialize, Deserialize, PartialEq)]
pub struct Violation {
    pub prop: String,
    /// Which oracle fired (stable identifier).
    pub oracle: String,
    /// Human-readable description.
    pub detail: String,
    /// Index of the step / statement at which it fired, if meaningful.
    pub at: Option<usize>,
    /// Normalised class signature used for minimisation and known-finding matching.
    pub sig: String,
    /// A fully explicit case that reproduces this violation (when the run derived part of its
    /// fault plan itself, e.g. enumerated crash points).
    #[serde(default)]
    pub pinned: Option<Box<Case>>,
}

impl Violation {
    pub fn new(prop: &str, oracle: &str, at: Option<usize>, detail: String) -> Violation {
        Violation {
            prop: prop.into(),
            oracle: oracle.into(),
            sig: format!("{prop}/{oracle}"),
            detail,
            at,
            pinned: None,
        }
    }
    pub fn pin(mut self, case: Case) -> Violation {
        self.pinned = Some(Box::new(case));
        self
    }
    pub fn with_sig(mut self, extra: &str) -> Violation {
        self.sig = format!("{}/{}/{}", self.prop, self.oracle, extra);
        self
    }
}

#[derive(Clone, Debug, Default, Serialize, Deserialize)]
pub struct RunStats {
    pub nontrivial: bool,
    /// Hash identifying the (workload shape, schedule, fault plan) of this run.
    pub distinct_key: u64,
    pub schedule_hash: u64,
    pub layout_hash: u64,
    pub sim_ns: u64,
    pub decisions: u64,
    pub statements: u64,
    pub syscalls: u64,
    pub evaluations: u64,
    pub faults: BTreeMap<String, u64>,
    pub probes: BTreeMap<String, u64>,
    pub gate_hits: BTreeMap<String, u64>,
}

#[derive(Clone, Debug, Default, Serialize, Deserialize)]
pub struct RunResult {
    pub seed: u64,
    pub violations: Vec<Violation>,
    pub harness_error: Option<String>,
    pub log_hash: u64,
    pub stats: RunStats,
    /// The decision trace actually taken (so that a replay file can pin it).
    pub decisions: Vec<u32>,
    /// Event log (only shipped when requested or when something fired).
    pub log: Vec<String>,
    pub panics: Vec<String>,
}
