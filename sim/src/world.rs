//! The simulated world of one run: a single-threaded tokio runtime with a paused clock,
//! the gate controller (scheduler seam), database handles and the event log.

use std::collections::BTreeMap;
use std::future::Future;
use std::sync::{Arc, Mutex};
use std::time::Duration;

use risinglight::Database;
use risinglight::array::Chunk;
use risinglight::storage::SecondaryStorageOptions;
use risinglight::types::DataValue;
use risinglight::verif::{Controller, GateFuture, ItemFault};
use serde::{Deserialize, Serialize};

use crate::interpose;
use crate::model::{Row, Val};
use crate::rng::{Fnv, Rng};

// ---------------------------------------------------------------------------------------------
// event log
// ---------------------------------------------------------------------------------------------

#[derive(Default)]
pub struct Log {
    pub lines: Vec<String>,
    hash: Fnv,
    journal_seen: usize,
}

impl Log {
    pub fn push(&mut self, s: String) {
        self.hash.write(s.as_bytes());
        self.hash.write(b"\n");
        self.lines.push(s);
    }
    pub fn hash(&self) -> u64 {
        self.hash.0
    }
    /// Append the syscall journal entries produced since the last call.
    pub fn absorb_journal(&mut self) {
        let evs = interpose::journal_since(self.journal_seen);
        self.journal_seen += evs.len();
        for e in evs {
            self.push(format!("  fs: {}", e.brief()));
        }
    }
    pub fn reset_journal_cursor(&mut self) {
        self.journal_seen = 0;
    }
}

// ---------------------------------------------------------------------------------------------
// knobs
// ---------------------------------------------------------------------------------------------

#[derive(Clone, Debug, Serialize, Deserialize, PartialEq)]
pub struct Knobs {
    pub block_size: usize,
    pub rowset_size: usize,
    pub record_first_key: bool,
    /// 0 = none, 1 = crc32
    pub checksum: u8,
    /// block cache capacity (entries): 0 = every read misses, large = never evicts
    pub cache: usize,
    /// 0 = positioned read, 1 = normal read
    pub io_backend: u8,
}

impl Knobs {
    pub fn default_cli() -> Knobs {
        Knobs {
            block_size: 16 << 10,
            rowset_size: 256 << 20,
            record_first_key: true,
            checksum: 1,
            cache: 262144,
            io_backend: 0,
        }
    }
    /// Swarm: draw a configuration.
    pub fn draw(rng: &mut Rng) -> Knobs {
        let block_size = *rng.pick(&[32usize, 64, 128, 256, 1024, 4096, 16 << 10]);
        // 1 = every flushed chunk is its own row-set and compaction never merges anything
        let rowset_size = *rng.pick(&[1usize, 64, 256, 1024, 4096, 64 << 10, 1 << 20, 256 << 20]);
        Knobs {
            block_size,
            rowset_size,
            // the range-filter scan rule requires first keys; off exercises the other path
            record_first_key: !rng.chance(1, 8),
            checksum: if rng.chance(1, 6) { 0 } else { 1 },
            // Never small: moka evicts during housekeeping driven by the real clock (quanta/TSC,
            // not interposable), so hit/miss would differ between replays. Cold-cache reads
            // are exercised by reopening instead.
            cache: {
                let _ = rng.chance(1, 3);
                262144
            },
            io_backend: if rng.chance(1, 4) { 1 } else { 0 },
        }
    }
    pub fn options(&self, path: &str) -> SecondaryStorageOptions {
        use risinglight_proto::rowset::block_checksum::ChecksumType;
        let mut o = SecondaryStorageOptions::default_for_cli();
        o.path = path.into();
        o.target_block_size = self.block_size;
        o.target_rowset_size = self.rowset_size;
        o.record_first_key = self.record_first_key;
        o.checksum_type = if self.checksum == 0 {
            ChecksumType::None
        } else {
            ChecksumType::Crc32
        };
        o.cache_size = self.cache;
        o.io_backend = if self.io_backend == 1 {
            risinglight::storage::VerifIOBackend::NormalRead
        } else {
            risinglight::storage::VerifIOBackend::PositionedRead
        };
        o
    }
}

// ---------------------------------------------------------------------------------------------
// outcomes
// ---------------------------------------------------------------------------------------------

#[derive(Clone, Debug, PartialEq)]
pub enum Outcome {
    Ok(Vec<Row>),
    Err(String),
    Panic(String),
}

impl Outcome {
    pub fn is_ok(&self) -> bool {
        matches!(self, Outcome::Ok(_))
    }
    pub fn brief(&self) -> String {
        match self {
            Outcome::Ok(rows) => {
                let mut r = rows.clone();
                r.sort();
                // multiset digest, and the digest of the sequence as returned (so that the event
                // log - and the determinism check over it - also sees the order of rows, which
                // depends on hash-map iteration order and scan interleaving)
                format!(
                    "ok {} rows #{:016x} ~{:08x}",
                    rows.len(),
                    Fnv::of(format!("{r:?}").as_bytes()),
                    Fnv::of(format!("{rows:?}").as_bytes()) as u32
                )
            }
            Outcome::Err(e) => format!("err {}", first_line(e)),
            Outcome::Panic(e) => format!("PANIC {}", first_line(e)),
        }
    }
    pub fn rows(&self) -> Option<&Vec<Row>> {
        match self {
            Outcome::Ok(r) => Some(r),
            _ => None,
        }
    }
    /// For DML: the affected-row count.
    pub fn count(&self) -> Option<i64> {
        match self {
            Outcome::Ok(r) if r.len() == 1 && r[0].len() == 1 => match &r[0][0] {
                Val::Int(i) => Some(*i),
                _ => None,
            },
            _ => None,
        }
    }
}

pub fn first_line(s: &str) -> String {
    let l = s.lines().next().unwrap_or("");
    if l.len() > 200 {
        format!("{}…", crate::rng::cut(l, 200))
    } else {
        l.to_string()
    }
}

pub fn to_val(v: DataValue) -> Val {
    match v {
        DataValue::Null => Val::Null,
        DataValue::Bool(b) => Val::Bool(b),
        DataValue::Int16(i) => Val::Int(i as i64),
        DataValue::Int32(i) => Val::Int(i as i64),
        DataValue::Int64(i) => Val::Int(i),
        DataValue::Float64(f) => Val::F(f.0),
        DataValue::String(s) => Val::Str(s.to_string()),
        // (formatting a day number outside the calendar panics: only corrupted data has one)
        DataValue::Date(d) => match std::panic::catch_unwind(|| d.to_string()) {
            Ok(s) => Val::Date(s),
            Err(_) => Val::Other("<invalid date>".into()),
        },
        DataValue::Decimal(d) => {
            // hundredths when exactly representable (scale normalised away)
            let (m, sc) = (d.mantissa(), d.scale());
            let h = if sc <= 2 {
                m.checked_mul(10i128.pow(2 - sc))
            } else {
                let f = 10i128.pow(sc - 2);
                (m % f == 0).then_some(m / f)
            };
            match h.and_then(|h| i64::try_from(h).ok()) {
                Some(h) => Val::Dec(h),
                None => Val::Other(d.to_string()),
            }
        }
        other => Val::Other(other.to_string()),
    }
}

pub fn chunks_to_rows(chunks: &[Chunk]) -> Vec<Row> {
    let mut out = vec![];
    for c in chunks {
        for dc in c.data_chunks() {
            for r in dc.rows() {
                out.push(r.values().map(to_val).collect());
            }
        }
    }
    out
}

pub fn data_chunk_rows(dc: &risinglight::array::DataChunk) -> Vec<Row> {
    dc.rows().map(|r| r.values().map(to_val).collect()).collect()
}

// ---------------------------------------------------------------------------------------------
// panic recording
// ---------------------------------------------------------------------------------------------

static PANICS: Mutex<Vec<String>> = Mutex::new(Vec::new());

pub fn install_panic_hook() {
    std::panic::set_hook(Box::new(|info| {
        let msg = if let Some(s) = info.payload().downcast_ref::<&str>() {
            s.to_string()
        } else if let Some(s) = info.payload().downcast_ref::<String>() {
            s.clone()
        } else {
            "<non-string panic>".to_string()
        };
        let loc = info
            .location()
            .map(|l| format!("{}:{}", l.file(), l.line()))
            .unwrap_or_default();
        let thread = std::thread::current().name().unwrap_or("?").to_string();
        if let Ok(mut g) = PANICS.lock() {
            g.push(format!("{} at {loc} [{thread}]", first_line(&msg)));
        }
    }));
}

pub fn take_panics() -> Vec<String> {
    std::mem::take(&mut *PANICS.lock().unwrap())
}
pub fn panic_count() -> usize {
    PANICS.lock().unwrap().len()
}
pub fn panics_since(n: usize) -> Vec<String> {
    PANICS.lock().unwrap()[n..].to_vec()
}

// ---------------------------------------------------------------------------------------------
// gate controller
// ---------------------------------------------------------------------------------------------

pub struct Parked {
    pub ticket: u64,
    pub site: &'static str,
    pub task: Option<tokio::task::Id>,
    tx: tokio::sync::oneshot::Sender<()>,
}

#[derive(Clone, Debug)]
pub struct OpFault {
    pub op: String,
    pub idx: usize,
    pub kind: ItemFault,
}

#[derive(Default)]
pub struct CtlInner {
    /// Gates park only while this is on.
    pub on: bool,
    /// Sites that park (others pass through).
    pub sites: Vec<&'static str>,
    pub parked: Vec<Parked>,
    next_ticket: u64,
    pub op_fault: Option<OpFault>,
    pub op_fault_fired: bool,
    /// Items seen per operator (name -> count) since the last reset.
    pub op_items: BTreeMap<String, usize>,
    pub probes: BTreeMap<&'static str, u64>,
    pub gate_hits: BTreeMap<&'static str, u64>,
    /// task -> (actor label)
    pub task_actor: Vec<(tokio::task::Id, String)>,
    pub spawned: u64,
}

#[derive(Default)]
pub struct Ctl {
    pub inner: Mutex<CtlInner>,
    /// Observers called when a given task arrives at `txn.start.pinned`, i.e. at the instant it
    /// has pinned its version (there is no await between the pin and that gate).
    pin_hooks: Mutex<Vec<(tokio::task::Id, Box<dyn FnMut() + Send>)>>,
}

impl Ctl {
    pub fn install() -> Arc<Ctl> {
        let c = Arc::new(Ctl::default());
        risinglight::verif::set_controller(Some(c.clone()));
        c
    }
    pub fn watch_pin(&self, task: tokio::task::Id, f: Box<dyn FnMut() + Send>) {
        self.pin_hooks.lock().unwrap().push((task, f));
    }
    pub fn unwatch_pin(&self, task: tokio::task::Id) {
        self.pin_hooks.lock().unwrap().retain(|(t, _)| *t != task);
    }
    pub fn with<R>(&self, f: impl FnOnce(&mut CtlInner) -> R) -> R {
        f(&mut self.inner.lock().unwrap())
    }
    pub fn set_gates(&self, on: bool, sites: &[&'static str]) {
        self.with(|c| {
            c.on = on;
            c.sites = sites.to_vec();
        })
    }
    /// Parked tickets whose task is still alive: (ticket, site, actor label).
    pub fn parked(&self) -> Vec<(u64, &'static str, String)> {
        self.with(|c| {
            c.parked.retain(|p| !p.tx.is_closed());
            c.parked
                .iter()
                .map(|p| {
                    let actor = p
                        .task
                        .and_then(|t| c.task_actor.iter().find(|(i, _)| *i == t))
                        .map(|(_, a)| a.clone())
                        .unwrap_or_else(|| "?".into());
                    (p.ticket, p.site, actor)
                })
                .collect()
        })
    }
    pub fn release(&self, ticket: u64) -> bool {
        self.with(|c| {
            if let Some(i) = c.parked.iter().position(|p| p.ticket == ticket) {
                let p = c.parked.remove(i);
                p.tx.send(()).is_ok()
            } else {
                false
            }
        })
    }
    pub fn release_all(&self) {
        self.with(|c| {
            for p in c.parked.drain(..) {
                let _ = p.tx.send(());
            }
        })
    }
    pub fn name_task(&self, id: tokio::task::Id, actor: &str) {
        self.with(|c| c.task_actor.push((id, actor.to_string())))
    }
}

impl Controller for Ctl {
    fn gate(&self, site: &'static str) -> Option<GateFuture> {
        if site == "txn.start.pinned" {
            if let Some(me) = tokio::task::try_id() {
                for (t, f) in self.pin_hooks.lock().unwrap().iter_mut() {
                    if *t == me {
                        f();
                    }
                }
            }
        }
        let mut c = self.inner.lock().unwrap();
        *c.gate_hits.entry(site).or_default() += 1;
        if !c.on || !c.sites.contains(&site) {
            return None;
        }
        let (tx, rx) = tokio::sync::oneshot::channel();
        let ticket = c.next_ticket;
        c.next_ticket += 1;
        c.parked.push(Parked {
            ticket,
            site,
            task: tokio::task::try_id(),
            tx,
        });
        Some(Box::pin(async move {
            let _ = rx.await;
        }))
    }

    fn operator_item(&self, name: &str, idx: usize) -> ItemFault {
        let mut c = self.inner.lock().unwrap();
        let n = c.op_items.entry(name.to_string()).or_default();
        *n = (*n).max(idx + 1);
        if let Some(f) = &c.op_fault {
            if !c.op_fault_fired && f.op == name && f.idx == idx {
                let k = f.kind;
                c.op_fault_fired = true;
                return k;
            }
        }
        ItemFault::None
    }

    fn probe(&self, name: &'static str) {
        *self.inner.lock().unwrap().probes.entry(name).or_default() += 1;
    }

    fn task_spawned(&self, child: tokio::task::Id, _name: &str) {
        let mut c = self.inner.lock().unwrap();
        c.spawned += 1;
        // operator tasks inherit the actor of the spawning task
        if let Some(parent) = tokio::task::try_id() {
            if let Some(a) = c
                .task_actor
                .iter()
                .find(|(i, _)| *i == parent)
                .map(|(_, a)| a.clone())
            {
                c.task_actor.push((child, a));
            }
        }
    }
}

// ---------------------------------------------------------------------------------------------
// runtime
// ---------------------------------------------------------------------------------------------

/// Run `f` on a fresh single-threaded runtime with a paused clock.
pub fn run_sim<F: Future>(seed: u64, f: F) -> F::Output {
    let rt = tokio::runtime::Builder::new_current_thread()
        .enable_all()
        .start_paused(true)
        .max_blocking_threads(1)
        // Tasks woken from the blocking thread land in the remote queue, tasks woken on the
        // scheduler thread in the local one; which queue is polled first depends on the tick
        // count modulo this interval, and ticks also count (real-time dependent) park/unpark
        // cycles. With 1 the remote queue is always polled first.
        .global_queue_interval(1)
        .event_interval(1)
        .rng_seed(tokio::runtime::RngSeed::from_bytes(&seed.to_le_bytes()))
        .build()
        .expect("runtime");
    let out = rt.block_on(f);
    // Do not wait for blocking threads or leftover tasks: the process is about to exit anyway.
    rt.shutdown_background();
    out
}

/// Wait until every task is parked, blocked, sleeping or finished and no blocking-pool job is
/// in flight. Under the paused clock tokio only auto-advances time in exactly that situation.
pub async fn quiesce() {
    tokio::time::sleep(Duration::from_nanos(1)).await;
}

pub async fn advance(d: Duration) {
    tokio::time::sleep(d).await;
    quiesce().await;
}

pub fn now_ns(t0: tokio::time::Instant) -> u128 {
    tokio::time::Instant::now().duration_since(t0).as_nanos()
}

// ---------------------------------------------------------------------------------------------
// database handle
// ---------------------------------------------------------------------------------------------

#[derive(Clone)]
pub struct Db {
    pub inner: Arc<Database>,
}

impl Db {
    pub fn memory() -> Db {
        Db {
            inner: Arc::new(Database::new_in_memory()),
        }
    }

    /// Open the on-disk engine. A failure to open (error or panic) is an `Err`.
    pub async fn open(opts: SecondaryStorageOptions) -> Result<Db, String> {
        let before = panic_count();
        let h = tokio::spawn(async move { Database::new_on_disk(opts).await });
        match h.await {
            Ok(db) => {
                // the compactor starts its first pass immediately; let it finish
                quiesce().await;
                Ok(Db {
                    inner: Arc::new(db),
                })
            }
            Err(e) => {
                let p = panics_since(before);
                Err(format!(
                    "open failed: {}{}",
                    if e.is_panic() { "panic " } else { "cancelled " },
                    p.join(" | ")
                ))
            }
        }
    }

    /// Run one SQL string in its own task, so that a panic on the session task is observed.
    pub async fn exec(&self, sql: &str) -> Outcome {
        let db = self.inner.clone();
        let sql = sql.to_string();
        let before = panic_count();
        let h = tokio::spawn(async move { db.run(&sql).await });
        match h.await {
            Ok(Ok(chunks)) => Outcome::Ok(chunks_to_rows(&chunks)),
            Ok(Err(e)) => Outcome::Err(e.to_string()),
            Err(e) => {
                let p = panics_since(before);
                Outcome::Panic(if e.is_panic() {
                    p.last().cloned().unwrap_or_else(|| "panic".into())
                } else {
                    "cancelled".into()
                })
            }
        }
    }

    pub async fn shutdown(&self) -> Result<(), String> {
        let db = self.inner.clone();
        let h = tokio::spawn(async move { db.shutdown().await });
        match h.await {
            Ok(Ok(())) => Ok(()),
            Ok(Err(e)) => Err(e.to_string()),
            Err(_) => Err("shutdown panicked".into()),
        }
    }
}

// ---------------------------------------------------------------------------------------------
// storage-level access (through the guarded accessor)
// ---------------------------------------------------------------------------------------------

use risinglight::storage::{
    KeyRange, ScanOptions, Storage, StorageColumnRef, StorageImpl, Table, Transaction, TxnIterator,
};

#[derive(Clone, Debug)]
pub struct ScanSpec {
    pub table: String,
    /// Storage column indexes, in output order.
    pub cols: Vec<u32>,
    pub sorted: bool,
    /// (start, end) as (inclusive?, value) pairs on the first primary-key column.
    pub range: Option<(Option<(bool, i32)>, Option<(bool, i32)>)>,
    pub batch: Option<usize>,
}

fn key_range(r: &(Option<(bool, i32)>, Option<(bool, i32)>)) -> KeyRange {
    use std::ops::Bound;
    let b = |x: &Option<(bool, i32)>| match x {
        None => Bound::Unbounded,
        Some((true, v)) => Bound::Included(DataValue::Int32(*v)),
        Some((false, v)) => Bound::Excluded(DataValue::Int32(*v)),
    };
    KeyRange {
        start: b(&r.0),
        end: b(&r.1),
    }
}

impl Db {
    /// Scan a table of the on-disk engine through the storage API.
    pub async fn storage_scan(&self, spec: &ScanSpec) -> Result<Vec<Row>, String> {
        let db = self.inner.clone();
        let spec = spec.clone();
        let before = panic_count();
        let h = tokio::spawn(async move {
            let StorageImpl::SecondaryStorage(s) = db.verif_storage() else {
                return Err("not a disk database".to_string());
            };
            let id = s
                .get_catalog()
                .get_table_id_by_name("postgres", &spec.table)
                .ok_or_else(|| format!("no table {}", spec.table))?;
            let table = s.get_table(id).map_err(|e| e.to_string())?;
            let txn = table.read().await.map_err(|e| e.to_string())?;
            let cols: Vec<StorageColumnRef> =
                spec.cols.iter().map(|c| StorageColumnRef::Idx(*c)).collect();
            let opts = ScanOptions::default()
                .with_sorted(spec.sorted)
                .with_filter_opt(spec.range.as_ref().map(key_range));
            let mut it = txn.scan(&cols, opts).await.map_err(|e| e.to_string())?;
            let mut rows = vec![];
            loop {
                match it.next_batch(spec.batch).await {
                    Ok(Some(c)) => rows.extend(data_chunk_rows(&c)),
                    Ok(None) => break,
                    Err(e) => return Err(e.to_string()),
                }
            }
            drop(it);
            txn.abort().await.map_err(|e| e.to_string())?;
            Ok(rows)
        });
        match h.await {
            Ok(r) => r,
            Err(_) => Err(format!("PANIC {}", panics_since(before).join(" | "))),
        }
    }
}
