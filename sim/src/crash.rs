//! `crash`: C04. A history is run once on the real on-disk engine while every mutating
//! syscall is journalled; then crash images are derived from the journal (every prefix, torn
//! writes, lost un-synced tails), each image is recovered with `Database::new_on_disk` and
//! compared with the model of the acknowledged prefix (with or without the statement in flight).

use std::collections::BTreeMap;
use std::time::Duration;

use crate::case::*;
use crate::genr::Step;
use crate::interpose::{self, Ev, Tree};
use crate::model::*;
use crate::rng::Rng;
use crate::run::Ctx;
use crate::world::*;

type State = BTreeMap<String, Vec<Row>>;

fn state_of(m: &Model) -> State {
    m.tables
        .iter()
        .map(|(n, (_, rows))| {
            let mut r = rows.clone();
            r.sort();
            (n.clone(), r)
        })
        .collect()
}

/// Build the crash image for `cp` from the journal.
pub fn image(journal: &[Ev], cp: &CrashPoint) -> Tree {
    let k = cp.k.min(journal.len());
    let mut t = Tree::from_journal(&journal[..k]);
    if let (Some(n), Some(Ev::Write { path, off, data })) = (cp.torn, journal.get(k)) {
        let n = n.min(data.len());
        if n > 0 {
            t.apply(&Ev::Write {
                path: path.clone(),
                off: *off,
                data: data[..n].to_vec(),
            });
        }
    }
    if cp.lose_dirents > 0 {
        let mut rng = Rng::new(cp.tail_seed ^ 0xD12E);
        let all = cp.lose_dirents == 1;
        t.lose_volatile_entries(|_| all || rng.chance(1, 2));
    }
    if cp.lose_unsynced {
        // bytes after a file's last sync may be cut back to any length >= the synced length
        let mut rng = Rng::new(cp.tail_seed);
        let names: Vec<String> = t.files.keys().cloned().collect();
        for n in names {
            let durable = t.durable_len.get(&n).copied().unwrap_or(0) as usize;
            let len = t.files[&n].len();
            if cp.hole && len > durable {
                // pages of the un-synced end written out of order: an earlier page's share of it
                // is missing (zeros) while a later page's share is there
                let first = durable.div_ceil(4096) * 4096; // first page boundary at or after `durable`
                if first > durable && first < len {
                    let f = t.files.get_mut(&n).unwrap();
                    let whole_pages = (len - first) / 4096;
                    if whole_pages >= 1 && rng.chance(1, 2) {
                        let at = first + 4096 * rng.usize(whole_pages);
                        for b in &mut f[at..(at + 4096).min(len - 1)] {
                            *b = 0;
                        }
                    } else {
                        for b in &mut f[durable..first] {
                            *b = 0;
                        }
                    }
                    continue;
                }
            }
            if len > durable {
                // the un-synced end of a file: cut back to any length >= the synced one, or kept
                // in length with its bytes never written (zero-filled from some point on: the
                // size update reached the disk, the data did not)
                match rng.usize(5) {
                    0 => t.files.get_mut(&n).unwrap().truncate(durable),
                    1 => t.files.get_mut(&n).unwrap().truncate(durable + (len - durable) / 2),
                    2 | 3 => {}
                    _ => {
                        let from = durable + rng.usize(len - durable);
                        for b in &mut t.files.get_mut(&n).unwrap()[from..] {
                            *b = 0;
                        }
                    }
                }
            }
        }
    }
    t
}

async fn observe(db: &Db, names: &[String]) -> BTreeMap<String, Option<Vec<Row>>> {
    let mut out = BTreeMap::new();
    for n in names {
        let o = db.exec(&format!("SELECT * FROM {n}")).await;
        out.insert(
            n.clone(),
            o.rows().map(|r| {
                let mut r = r.clone();
                r.sort();
                r
            }),
        );
    }
    out
}

fn matches_state(obs: &BTreeMap<String, Option<Vec<Row>>>, want: &State) -> bool {
    obs.iter().all(|(n, got)| match (got, want.get(n)) {
        (Some(g), Some(w)) => g == w,
        (None, None) => true,
        _ => false,
    })
}

fn describe(obs: &BTreeMap<String, Option<Vec<Row>>>) -> String {
    obs.iter()
        .map(|(n, r)| match r {
            Some(r) => format!("{n}:{}[{}]", r.len(), rows_brief(r, 6)),
            None => format!("{n}:absent"),
        })
        .collect::<Vec<_>>()
        .join(" ")
}

fn describe_state(s: &State) -> String {
    s.iter()
        .map(|(n, r)| format!("{n}:{}[{}]", r.len(), rows_brief(r, 6)))
        .collect::<Vec<_>>()
        .join(" ")
}

struct Recorded {
    journal: Vec<Ev>,
    /// per statement-like step: (step index, journal length before, after, acked?, model after)
    marks: Vec<(usize, usize, usize, bool)>,
    /// model state after each step index (state as of acknowledged statements)
    states: Vec<State>,
    defs: Vec<Model>,
}

pub async fn run(cx: &mut Ctx) {
    let knobs = cx.case.knobs();
    let steps = cx.case.steps.clone();
    let root = cx.root.clone();
    let t0 = tokio::time::Instant::now();

    // ---------------- phase 1: run the history, journalled
    let mut db = match Db::open(knobs.options(&root)).await {
        Ok(d) => d,
        Err(e) => {
            cx.harness_error = Some(format!("initial open failed: {e}"));
            return;
        }
    };
    cx.log.push("open".into());
    cx.log.absorb_journal();
    let mut model = Model::default();
    let mut rec = Recorded {
        journal: vec![],
        marks: vec![],
        states: vec![],
        defs: vec![],
    };
    let initial_state = state_of(&model);
    for (i, step) in steps.iter().enumerate() {
        cx.log.push(format!("[{i}] {}", step.brief()));
        match step {
            Step::Stmt(s) => {
                cx.stats.statements += 1;
                let before = interpose::journal_len();
                let expect = model.expect(s);
                let out = db.exec(&s.sql()).await;
                quiesce().await;
                let after = interpose::journal_len();
                cx.log.push(format!("    => {}", out.brief()));
                cx.log.absorb_journal();
                let acked = out.is_ok();
                if acked && !matches!(expect, Expect::Err(_)) {
                    model.apply(s);
                }
                rec.marks.push((i, before, after, acked));
            }
            Step::Advance { ms } => {
                advance(Duration::from_millis(*ms)).await;
                cx.log.absorb_journal();
            }
            Step::Reopen => {
                // clean shutdown + reopen inside the history: boot-time manifest rewrite and
                // vacuum become crash points of the main journal
                let _ = db.shutdown().await;
                drop(db);
                quiesce().await;
                match Db::open(knobs.options(&root)).await {
                    Ok(d) => db = d,
                    Err(e) => {
                        // a reopen failure without any crash belongs to C03, not C04
                        cx.probe("clean-reopen-failed-in-history");
                        cx.log.push(format!("    reopen failed: {e}"));
                        cx.stats.nontrivial = false;
                        return;
                    }
                }
                cx.log.absorb_journal();
            }
        }
        rec.states.push(state_of(&model));
        rec.defs.push(model.clone());
    }
    let _ = db.shutdown().await;
    cx.log.push("shutdown".into());
    cx.log.absorb_journal();
    drop(db);
    quiesce().await;
    rec.journal = interpose::journal_snapshot();
    let n = rec.journal.len();

    // the journal must describe the directory exactly (otherwise images would be fiction)
    {
        let t = Tree::from_journal(&rec.journal);
        match Tree::from_dir(&root) {
            Ok(real) => {
                if let Err(e) = t.same_content(&real) {
                    cx.harness_error = Some(format!("journal self-check failed: {e}"));
                    return;
                }
            }
            Err(e) => {
                cx.harness_error = Some(format!("cannot read {root}: {e}"));
                return;
            }
        }
    }

    // ---------------- phase 2: crash points
    let mut points = cx.case.crash_points.clone();
    if points.is_empty() {
        let mut rng = Rng::new(cx.case.seed ^ 0xC4A5);
        let all = cx.case.param("all_points", 0) == 1;
        let sample_pct = cx.case.param("sample_pct", 25) as u64;
        for k in 0..=n {
            // windows between "data synced" and "manifest synced" are always taken
            let near_manifest = (k.saturating_sub(2)..=(k + 1).min(n.saturating_sub(1)))
                .any(|j| rec.journal.get(j).is_some_and(|e| e.path().contains("manifest")));
            if !(all || near_manifest || rng.chance(sample_pct, 100)) {
                continue;
            }
            let mut torn: Vec<Option<usize>> = vec![None];
            if let Some(Ev::Write { data, path, .. }) = rec.journal.get(k) {
                let len = data.len();
                let mut ts = vec![1usize, len / 2, len.saturating_sub(1)];
                if all && path.contains("manifest") {
                    ts = (1..len).collect();
                }
                ts.retain(|t| *t > 0 && *t < len);
                ts.dedup();
                torn.extend(ts.into_iter().map(Some));
            }
            for t in torn {
                for lose in [false, true] {
                    if lose && !all && !rng.chance(1, 2) {
                        continue;
                    }
                    let second = if rng.chance(1, if all { 3 } else { 6 }) {
                        Some(rng.usize(12))
                    } else {
                        None
                    };
                    // with the un-synced tails, sometimes also the un-synced directory entries
                    let lose_dirents = if lose && cx.case.param("dirents", 1) == 1 {
                        *rng.pick(&[0u8, 0, 1, 2])
                    } else {
                        0
                    };
                    points.push(CrashPoint {
                        k,
                        torn: t,
                        lose_unsynced: lose,
                        tail_seed: rng.next(),
                        second,
                        lose_dirents,
                        // (a known finding: only in the runs that do not steer around those)
                        hole: lose && cx.case.param("avoid", 1) == 0 && rng.chance(1, 2),
                    });
                }
            }
        }
    }

    let mut images = 0u64;
    let mut nontrivial = false;
    let names_all: Vec<String> = {
        let mut s = std::collections::BTreeSet::new();
        for st in &rec.states {
            s.extend(st.keys().cloned());
        }
        s.into_iter().collect()
    };
    for (pi, cp) in points.iter().enumerate() {
        images += 1;
        cx.stats.evaluations += 1;
        // which statements are acknowledged at k, which one is in flight
        let mut acked_idx: Option<usize> = None; // last acknowledged step index
        let mut inflight: Option<usize> = None;
        for (i, before, after, acked) in &rec.marks {
            if *after <= cp.k && *acked {
                acked_idx = Some(*i);
            } else if *before <= cp.k && cp.k < *after {
                inflight = Some(*i);
                nontrivial = true;
            }
        }
        // candidate states: acked prefix, or acked prefix + the statement in flight
        let base_state = match acked_idx {
            Some(i) => {
                // state after step i, but Advance steps after it do not change the model
                rec.states[i].clone()
            }
            None => initial_state.clone(),
        };
        let mut candidates = vec![base_state.clone()];
        if let Some(i) = inflight {
            candidates.push(rec.states[i].clone());
        }
        // a statement that failed (not acked) may still be in flight: its model state equals
        // the previous one, already covered.

        let img_root = format!("{}/img{pi}", cx.base);
        let _ = std::fs::remove_dir_all(&img_root);
        if std::fs::create_dir_all(&img_root).is_err() {
            cx.harness_error = Some("cannot create image dir".into());
            return;
        }
        let tree = image(&rec.journal, cp);
        if let Err(e) = tree.materialise(&img_root) {
            cx.harness_error = Some(format!("materialise: {e}"));
            return;
        }
        let label = format!(
            "crash@{}{}{} of {n} ({})",
            cp.k,
            cp.torn.map(|t| format!("+{t}B")).unwrap_or_default(),
            match (cp.lose_unsynced, cp.lose_dirents) {
                (_, 1) => " lose-unsynced+dirents",
                (_, 2) => " lose-unsynced+some-dirents",
                (true, _) => " lose-unsynced",
                _ => "",
            },
            rec.journal.get(cp.k).map(|e| e.brief()).unwrap_or_else(|| "end".into())
        );
        *cx
            .stats
            .faults
            .entry(format!(
                "crash:{}{}{}",
                rec.journal.get(cp.k).map(|e| e.kind()).unwrap_or("end"),
                if cp.torn.is_some() { ":torn" } else { "" },
                match (cp.lose_unsynced, cp.lose_dirents) {
                    (_, 1 | 2) => ":lose-unsynced+dirents",
                    (true, _) => ":lose-unsynced",
                    _ => "",
                }
            ))
            .or_default() += 1;

        // recovery, journalled on its own (for crash-during-recovery)
        interpose::start(&img_root, false);
        let vio_before = cx.vio.len();
        let r = recover_and_check(cx, &knobs, &img_root, &names_all, &candidates, &label, pi, cp.k, true, &rec).await;
        let mut recovery_journal = interpose::journal_snapshot();
        recovery_journal.truncate(cx.stats.probes.get("_recovery_journal_len").copied().unwrap_or(0) as usize);
        interpose::stop();
        pin_new(cx, vio_before, cp, false);
        let Some(first_obs) = r else {
            let _ = std::fs::remove_dir_all(&img_root);
            if cx.stop_at_first {
                break;
            }
            continue;
        };

        // crash during recovery: image + a prefix of the recovery's own journal
        if let Some(j) = cp.second {
            let j = j.min(recovery_journal.len());
            let mut t2 = tree.clone();
            for e in &recovery_journal[..j] {
                t2.apply(e);
            }
            let img2 = format!("{}/img{pi}b", cx.base);
            let _ = std::fs::remove_dir_all(&img2);
            let _ = std::fs::create_dir_all(&img2);
            if t2.materialise(&img2).is_ok() {
                images += 1;
                cx.stats.evaluations += 1;
                *cx.stats.faults.entry("crash:during-recovery".into()).or_default() += 1;
                interpose::start(&img2, false);
                let want: State = first_obs
                    .iter()
                    .filter_map(|(n, r)| r.clone().map(|r| (n.clone(), r)))
                    .collect();
                let l2 = format!("{label} then crash after {j} recovery steps");
                let vio_before = cx.vio.len();
                let _ = recover_and_check(cx, &knobs, &img2, &names_all, &[want], &l2, pi, cp.k, false, &rec).await;
                interpose::stop();
                pin_new(cx, vio_before, cp, true);
            }
            let _ = std::fs::remove_dir_all(&img2);
        }
        let _ = std::fs::remove_dir_all(&img_root);
        if !cx.vio.is_empty() && cx.stop_at_first {
            break;
        }
    }
    // restore observation of the original root for the generic end-of-run self-check
    cx.case.params.insert("skip_selfcheck".into(), 1);
    interpose::start(&root, false);
    cx.stats.nontrivial = nontrivial && images > 0;
    cx.stats.sim_ns = now_ns(t0) as u64;
    cx.stats
        .probes
        .insert("crash-images-recovered".into(), images);
    cx.stats
        .probes
        .insert("journal-entries".into(), n as u64);
}

/// Attach an explicit reproducing case (this crash point only) to the violations just raised.
fn pin_new(cx: &mut Ctx, from: usize, cp: &CrashPoint, keep_second: bool) {
    let mut c = cx.case.clone();
    let mut cp = cp.clone();
    if !keep_second {
        cp.second = None;
    }
    c.crash_points = vec![cp];
    for v in cx.vio[from..].iter_mut() {
        if keep_second {
            v.sig = format!("{}/during-recovery", v.sig);
        }
        v.pinned = Some(Box::new(c.clone()));
    }
}

/// Recover an image and check it. Returns the observed state if recovery worked.
async fn recover_and_check(
    cx: &mut Ctx,
    knobs: &Knobs,
    img_root: &str,
    names: &[String],
    candidates: &[State],
    label: &str,
    pi: usize,
    // varies the probe statements; a function of the crash point only, so that a replay of this
    // crash point alone issues the same probes
    salt: usize,
    probes: bool,
    rec: &Recorded,
) -> Option<BTreeMap<String, Option<Vec<Row>>>> {
    let vio_at_entry = cx.vio.len();
    let mut probed_tables: Option<Vec<String>> = None;
    // rows each probed table must hold after the probe statements (and after the next reopen)
    let mut want_after: BTreeMap<String, Vec<Row>> = BTreeMap::new();
    let db = match Db::open(knobs.options(img_root)).await {
        Ok(d) => d,
        Err(e) => {
            cx.log.push(format!("  {label}: recovery FAILED: {e}"));
            cx.violate(
                Violation::new(
                    "C04",
                    "recovery-failed",
                    Some(pi),
                    format!("{label}: reopening the crash image failed: {}", first_line(&e)),
                )
                .with_sig(&crate::hist::panic_site(&e)),
            );
            return None;
        }
    };
    cx.stats
        .probes
        .insert("_recovery_journal_len".into(), interpose::journal_len() as u64);
    let obs = observe(&db, names).await;
    let ok = candidates.iter().any(|c| matches_state(&obs, c));
    if !ok {
        cx.log.push(format!("  {label}: state mismatch"));
        let kind = if candidates.len() == 2 {
            "state-neither-before-nor-after"
        } else {
            "acknowledged-state-lost"
        };
        cx.violate(Violation::new(
            "C04",
            kind,
            Some(pi),
            format!(
                "{label}: recovered state {} ; allowed: {}",
                describe(&obs),
                candidates
                    .iter()
                    .map(describe_state)
                    .collect::<Vec<_>>()
                    .join("  |  ")
            ),
        ));
        let _ = db.shutdown().await;
        return Some(obs);
    }
    if probes {
        // the recovered database accepts new statements
        let which = candidates.iter().position(|c| matches_state(&obs, c)).unwrap();
        // definitions as of the matching candidate
        let defs: Option<&Model> = rec
            .defs
            .iter()
            .rev()
            .find(|m| state_of(m) == candidates[which]);
        if let Some(m) = defs {
            probed_tables = Some(m.tables.keys().cloned().collect());
            for (n, (def, rows)) in &m.tables {
                let mut rng = Rng::new(salt as u64 ^ 0xBEEF);
                let row: Row = def
                    .cols
                    .iter()
                    .map(|c| match c.ty {
                        Ty::Int | Ty::BigInt => Val::Int(5000 + rng.range(0, 50)),
                        Ty::Varchar => Val::Str("probe".into()),
                        Ty::Bool => Val::Bool(true),
                        Ty::Double => Val::F(0.5),
                        Ty::SmallInt => Val::Int(5000 + rng.range(0, 50)),
                        Ty::Decimal => Val::Dec(12345),
                        Ty::Date => Val::Date("2031-07-09".into()),
                    })
                    .collect();
                let ins = Stmt::Insert {
                    table: n.clone(),
                    cols: vec![],
                    rows: vec![row.clone()],
                };
                let o = db.exec(&ins.sql()).await;
                cx.stats.evaluations += 1;
                if !o.is_ok() {
                    cx.violate(
                        Violation::new(
                            "C04",
                            "post-recovery-statement-rejected",
                            Some(pi),
                            format!("{label}: after recovery {} => {}", ins.sql(), o.brief()),
                        )
                        .with_sig(&crate::hist::err_class(&o)),
                    );
                    break;
                }
                let o = db.exec(&format!("SELECT * FROM {n}")).await;
                let mut want = rows.clone();
                want.push(row);
                if let Some(got) = o.rows() {
                    if let Some(d) = multiset_diff(got, &want) {
                        cx.violate(Violation::new(
                            "C04",
                            "post-recovery-read-wrong",
                            Some(pi),
                            format!("{label}: after recovery + insert into {n}: {d}"),
                        ));
                        break;
                    }
                }
                // alternately: delete everything, or only the rows equal to one existing row (a
                // short delete vector on a row-set the interrupted statement may have touched)
                let narrow = (salt + rows.len()) % 2 == 1 && !rows.is_empty();
                let (del, removed) = if narrow {
                    let r0 = &rows[(salt / 2) % rows.len()];
                    let pred = Pred(
                        def.cols
                            .iter()
                            .zip(r0.iter())
                            .map(|(c, v)| {
                                if v.is_null() {
                                    Atom::IsNull { col: c.name.clone() }
                                } else {
                                    Atom::Cmp { col: c.name.clone(), op: Cmp::Eq, val: v.clone() }
                                }
                            })
                            .collect(),
                    );
                    let hit = want.iter().filter(|r| pred.holds(def, r)).count();
                    want.retain(|r| !pred.holds(def, r));
                    (format!("DELETE FROM {n}{}", pred.sql()), hit)
                } else {
                    let k = want.len();
                    want.clear();
                    (format!("DELETE FROM {n}"), k)
                };
                want_after.insert(n.clone(), want.clone());
                let o = db.exec(&del).await;
                if o.count() != Some(removed as i64) {
                    cx.violate(
                        Violation::new(
                            "C04",
                            "post-recovery-statement-rejected",
                            Some(pi),
                            format!(
                                "{label}: after recovery {del} => {} (expected {removed} rows)",
                                o.brief()
                            ),
                        )
                        .with_sig(&crate::hist::err_class(&o)),
                    );
                    break;
                }
            }
            let o = db.exec("CREATE TABLE probe_new (a INT PRIMARY KEY, b VARCHAR)").await;
            if !o.is_ok() {
                cx.violate(
                    Violation::new(
                        "C04",
                        "post-recovery-statement-rejected",
                        Some(pi),
                        format!("{label}: after recovery CREATE TABLE => {}", o.brief()),
                    )
                    .with_sig(&crate::hist::err_class(&o)),
                );
            }
        }
    }
    if db.shutdown().await.is_err() {
        cx.probe("recovered-db-shutdown-failed");
    }
    drop(db);
    quiesce().await;
    // what the recovered database acknowledged must itself survive a clean shutdown + reopen
    if probes && probed_tables.is_some() && cx.vio.len() == vio_at_entry {
        cx.stats.evaluations += 1;
        match Db::open(knobs.options(img_root)).await {
            Ok(db2) => {
                let mut names2: Vec<String> = probed_tables.clone().unwrap();
                names2.push("probe_new".into());
                let obs2 = observe(&db2, &names2).await;
                // every probed table holds what the probe statements left; probe_new was created
                for (n, rows) in &obs2 {
                    let want = want_after.get(n).cloned().unwrap_or_default();
                    match rows {
                        Some(r) if multiset_diff(r, &want).is_none() => {}
                        other => {
                            cx.violate(Violation::new(
                                "C04",
                                "post-recovery-statements-not-durable",
                                Some(pi),
                                format!(
                                    "{label}: after recovery the database acknowledged INSERT / DELETE FROM {n} / CREATE TABLE probe_new leaving {} rows; after a clean shutdown and reopen {n} is {}",
                                    want.len(),
                                    match other {
                                        Some(r) => format!("{} rows [{}]", r.len(), rows_brief(r, 6)),
                                        None => "absent".into(),
                                    }
                                ),
                            ));
                            break;
                        }
                    }
                }
                let _ = db2.shutdown().await;
                drop(db2);
                quiesce().await;
            }
            Err(e) => {
                cx.violate(
                    Violation::new(
                        "C04",
                        "reopen-after-recovery-failed",
                        Some(pi),
                        format!(
                            "{label}: recovery worked and new statements were acknowledged, but the next open failed: {}",
                            first_line(&e)
                        ),
                    )
                    .with_sig(&crate::hist::panic_site(&e)),
                );
            }
        }
    }
    Some(obs)
}
