//! Supervisor: forks one child process per simulated run (so that every run starts from the
//! same process image: no leaked global counters, no leaked threads), fans runs out over
//! worker processes, aggregates results.

use std::io::{Read, Write};
use std::os::fd::FromRawFd;

use crate::case::*;

/// Run `case` in a forked child of the current (single-threaded) process.
pub fn run_in_child(case: &Case, want_log: bool, timeout_s: u32) -> RunResult {
    let mut fds = [0i32; 2];
    if unsafe { libc::pipe(fds.as_mut_ptr()) } != 0 {
        return harness_err(case, "pipe failed".into());
    }
    let pid = unsafe { libc::fork() };
    if pid < 0 {
        return harness_err(case, "fork failed".into());
    }
    if pid == 0 {
        // child
        unsafe {
            libc::close(fds[0]);
            libc::alarm(timeout_s);
        }
        // On a fresh thread: thread-local random state (std's hash-map keys) must not be
        // inherited from whatever the parent process happened to do before the fork, or the run
        // would depend on the invocation (batch worker vs replay) and not on the case alone.
        let case2 = case.clone();
        let res = std::thread::Builder::new()
            .name("main".into())
            .stack_size(256 << 20)
            .spawn(move || {
                std::panic::catch_unwind(|| crate::run::run_case(&case2, want_log))
            })
            .map_err(|_| ())
            .and_then(|h| h.join().map_err(|_| ()))
            .and_then(|r| r.map_err(|_| ()));
        let res = match res {
            Ok(r) => r,
            Err(_) => harness_err(
                case,
                format!("simulator panicked on the main task: {:?}", crate::world::take_panics()),
            ),
        };
        let bytes = serde_json::to_vec(&res).unwrap_or_default();
        let mut f = unsafe { std::fs::File::from_raw_fd(fds[1]) };
        let _ = f.write_all(&bytes);
        let _ = f.flush();
        drop(f);
        unsafe { libc::_exit(0) };
    }
    unsafe { libc::close(fds[1]) };
    let mut f = unsafe { std::fs::File::from_raw_fd(fds[0]) };
    let mut buf = Vec::new();
    let _ = f.read_to_end(&mut buf);
    drop(f);
    let mut status = 0i32;
    unsafe { libc::waitpid(pid, &mut status, 0) };
    if !libc::WIFSIGNALED(status) {
        let _ = std::fs::remove_file(format!("/dev/shm/rlsim.crumb.{pid}"));
    }
    // scratch directory of a child that died early
    let _ = std::fs::remove_dir_all(format!("/dev/shm/rlsim.{pid}"));
    if libc::WIFSIGNALED(status) {
        let sig = libc::WTERMSIG(status);
        // a child may announce that the next step can legitimately kill the process
        // (e.g. opening a deliberately corrupted database aborts on a huge allocation)
        let crumb_path = format!("/dev/shm/rlsim.crumb.{pid}");
        let crumb = std::fs::read_to_string(&crumb_path);
        let _ = std::fs::remove_file(&crumb_path);
        // (the supervisor's own alarm is a timeout of the harness, not an abort of the system)
        if let (Ok(c), true) = (crumb, sig != libc::SIGALRM) {
            if let Ok(mut r) = serde_json::from_str::<RunResult>(&c) {
                *r.stats.probes.entry(format!("process-died-signal-{sig}")).or_default() += 1;
                return r;
            }
        }
        return harness_err(
            case,
            if sig == libc::SIGALRM {
                format!("child timed out after {timeout_s}s")
            } else {
                format!("child killed by signal {sig}")
            },
        );
    }
    match serde_json::from_slice::<RunResult>(&buf) {
        Ok(r) => r,
        Err(e) => harness_err(
            case,
            format!("child result unreadable ({e}); exit status {status}; {} bytes", buf.len()),
        ),
    }
}

fn harness_err(case: &Case, msg: String) -> RunResult {
    RunResult {
        seed: case.seed,
        harness_error: Some(msg),
        ..Default::default()
    }
}

/// Evaluate `n` items over `workers` worker processes. `make(i)` builds the case for item i
/// (inside the worker). Results come back in item order.
pub fn parallel_eval(
    n: usize,
    workers: usize,
    timeout_s: u32,
    wall_cap_s: u64,
    make: &(dyn Fn(usize) -> Case + Sync),
) -> Vec<Option<(Case, RunResult)>> {
    let workers = workers.max(1).min(n.max(1));
    let dir = format!("/dev/shm/rlsim.sup.{}", std::process::id());
    let _ = std::fs::remove_dir_all(&dir);
    std::fs::create_dir_all(&dir).expect("supervisor scratch dir");
    let start = std::time::Instant::now();
    let mut pids = vec![];
    for w in 0..workers {
        let pid = unsafe { libc::fork() };
        if pid == 0 {
            let mut out =
                std::io::BufWriter::new(std::fs::File::create(format!("{dir}/w{w}.jsonl")).unwrap());
            let mut i = w;
            while i < n {
                if wall_cap_s > 0 && start.elapsed().as_secs() >= wall_cap_s {
                    break;
                }
                let case = make(i);
                let res = run_in_child(&case, std::env::var_os("RLSIM_WANT_LOG").is_some(), timeout_s);
                // keep the case only when something fired (it can be regenerated otherwise)
                let keep_case = !res.violations.is_empty() || res.harness_error.is_some();
                let line = serde_json::to_string(&(i, keep_case.then_some(&case), &res)).unwrap();
                let _ = writeln!(out, "{line}");
                i += workers;
            }
            let _ = out.flush();
            drop(out);
            unsafe { libc::_exit(0) };
        }
        pids.push(pid);
    }
    for pid in pids {
        let mut st = 0;
        unsafe { libc::waitpid(pid, &mut st, 0) };
    }
    let mut results: Vec<Option<(Case, RunResult)>> = (0..n).map(|_| None).collect();
    for w in 0..workers {
        if let Ok(s) = std::fs::read_to_string(format!("{dir}/w{w}.jsonl")) {
            for line in s.lines() {
                if let Ok((i, case, res)) =
                    serde_json::from_str::<(usize, Option<Case>, RunResult)>(line)
                {
                    let case = case.unwrap_or_else(|| make(i));
                    results[i] = Some((case, res));
                }
            }
        }
    }
    let _ = std::fs::remove_dir_all(&dir);
    results
}

/// Evaluate explicit cases in parallel (used by the minimiser).
pub fn eval_cases(cases: &[Case], workers: usize, timeout_s: u32) -> Vec<RunResult> {
    let r = parallel_eval(cases.len(), workers, timeout_s, 0, &|i| cases[i].clone());
    r.into_iter()
        .enumerate()
        .map(|(i, x)| {
            x.map(|(_, r)| r)
                .unwrap_or_else(|| harness_err(&cases[i], "no result".into()))
        })
        .collect()
}
