//! Reviewed predicates over (minimised case, violation) used to recognise known findings
//! narrowly, so that a different violation of the same property is still reported.

use crate::case::*;
use crate::genr::Step;
use crate::model::*;

pub fn predicate(name: &str, case: &Case, v: &Violation) -> bool {
    match name {
        "" | "always" => true,
        // A catalog object that is not a table (view, index) was created before a later
        // CREATE TABLE: it consumed a catalog id that manifest replay does not reproduce.
        "nontable_object_before_create_table" => {
            let st = stmts(case);
            let first_obj = st
                .iter()
                .position(|s| matches!(s, Stmt::CreateView { .. } | Stmt::CreateIndex { .. }));
            match first_obj {
                Some(i) => st[i + 1..].iter().any(|s| matches!(s, Stmt::CreateTable(_))),
                None => false,
            }
        }
        // The only corruption of the case zero-fills a sector (block trailer included).
        "zero_filled_sector" => {
            case.corruptions.len() == 1 && case.corruptions[0].kind == "zero512"
        }
        // The only crash point of the case loses a page in the middle of un-synced data.
        "unsynced_page_hole" => case.crash_points.len() == 1 && case.crash_points[0].hole,
        // The only corruption of the case replaces a file by a same-sized sibling.
        "sibling_file_content" => {
            case.corruptions.len() == 1 && case.corruptions[0].kind == "sibling"
        }
        // The only fault of the case is an I/O error on the manifest's fsync or write.
        "io_error_on_manifest_sync_or_write" => {
            case.op_faults.is_empty()
                && case.io_faults.len() == 1
                && case.io_faults[0].path.contains("manifest")
                && matches!(
                    case.io_faults[0].class,
                    crate::interpose::Class::Sync | crate::interpose::Class::Write
                )
        }
        other => {
            let _ = (case, v);
            eprintln!("HARNESS-ERROR unknown known-finding predicate {other}");
            false
        }
    }
}

#[allow(dead_code)]
pub fn stmts(case: &Case) -> Vec<&Stmt> {
    case.steps
        .iter()
        .filter_map(|s| if let Step::Stmt(s) = s { Some(s) } else { None })
        .collect()
}
