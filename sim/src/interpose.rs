//! The simulated disk.
//!
//! risinglight has no VFS trait; all persistence goes through `std::fs` / `tokio::fs`. The seam
//! that exists is the libc boundary: this binary defines `open64`, `write`, `fdatasync`,
//! `rename`, ... itself, the statically linked std resolves to these definitions, and the real
//! functions are reached through `dlsym(RTLD_NEXT)`.
//!
//! For calls that touch a path under the run's root directory the interposer
//!  * journals every mutation (so crash images can be derived for *every* prefix of the
//!    persistence steps, including torn writes and un-synced tails),
//!  * can fail or perturb call number k (EIO, ENOSPC, EINTR, short write / short read),
//!  * counts what it saw.
//! Everything else is forwarded untouched.
//!
//! It also defines `getrandom`/`getentropy`, so that hash-map iteration order and every other
//! consumer of OS entropy is a function of the run's seed.

use std::cell::Cell;
use std::collections::BTreeMap;
use std::ffi::CStr;
use std::sync::Mutex;
use std::sync::atomic::{AtomicBool, AtomicUsize, Ordering::Relaxed};

use libc::{c_char, c_int, c_uint, c_void, mode_t, off_t, size_t, ssize_t};
use serde::{Deserialize, Serialize};

use crate::rng::Rng;

// ---------------------------------------------------------------------------------------------
// journal
// ---------------------------------------------------------------------------------------------

/// One mutation of the directory tree under the run's root. Paths are relative to the root.
#[derive(Clone, Debug, PartialEq, Eq, Serialize, Deserialize)]
pub enum Ev {
    Mkdir { path: String },
    /// A regular file came into existence through `open(O_CREAT)`.
    Create { path: String },
    Truncate { path: String, len: u64 },
    Write { path: String, off: u64, data: Vec<u8> },
    /// fsync / fdatasync of a regular file.
    Sync { path: String },
    /// fsync / fdatasync of a directory.
    SyncDir { path: String },
    Rename { from: String, to: String },
    Unlink { path: String },
    Rmdir { path: String },
}

impl Ev {
    pub fn kind(&self) -> &'static str {
        match self {
            Ev::Mkdir { .. } => "mkdir",
            Ev::Create { .. } => "create",
            Ev::Truncate { .. } => "truncate",
            Ev::Write { .. } => "write",
            Ev::Sync { .. } => "sync",
            Ev::SyncDir { .. } => "syncdir",
            Ev::Rename { .. } => "rename",
            Ev::Unlink { .. } => "unlink",
            Ev::Rmdir { .. } => "rmdir",
        }
    }
    pub fn path(&self) -> &str {
        match self {
            Ev::Mkdir { path }
            | Ev::Create { path }
            | Ev::Truncate { path, .. }
            | Ev::Write { path, .. }
            | Ev::Sync { path }
            | Ev::SyncDir { path }
            | Ev::Unlink { path }
            | Ev::Rmdir { path } => path,
            Ev::Rename { from, .. } => from,
        }
    }
    /// Short text form for event logs (content is represented by length and hash).
    pub fn brief(&self) -> String {
        match self {
            Ev::Write { path, off, data } => {
                let mut s = format!(
                    "write {path} @{off} +{} #{:016x}",
                    data.len(),
                    crate::rng::Fnv::of(data)
                );
                if path.contains("manifest") && std::env::var_os("RLSIM_SHOW_MANIFEST").is_some() {
                    s.push_str(" :: ");
                    s.push_str(&String::from_utf8_lossy(data));
                }
                s
            }
            Ev::Truncate { path, len } => format!("truncate {path} ->{len}"),
            Ev::Rename { from, to } => format!("rename {from} -> {to}"),
            e => format!("{} {}", e.kind(), e.path()),
        }
    }
}

// ---------------------------------------------------------------------------------------------
// faults
// ---------------------------------------------------------------------------------------------

#[derive(Clone, Copy, Debug, PartialEq, Eq, PartialOrd, Ord, Serialize, Deserialize)]
pub enum Class {
    Open,
    Write,
    Read,
    Sync,
    Mkdir,
    Rename,
    Unlink,
}

#[derive(Clone, Copy, Debug, PartialEq, Eq, Serialize, Deserialize)]
pub enum FaultKind {
    Eio,
    Enospc,
    Eintr,
    /// Transfer only part of the requested bytes (legal for read/write; callers must loop).
    Short,
}

#[derive(Clone, Debug, PartialEq, Serialize, Deserialize)]
pub struct Fault {
    /// Index into the sequence of faultable calls on paths under the root.
    pub call: u64,
    pub kind: FaultKind,
    /// Only fire if the call is of this class (otherwise the fault is skipped, not deferred).
    pub class: Option<Class>,
}

#[derive(Clone, Debug, Default, Serialize, Deserialize)]
pub struct Stats {
    pub calls: u64,
    pub by_class: BTreeMap<String, u64>,
    pub faults_fired: BTreeMap<String, u64>,
}

struct FdInfo {
    path: String,
    is_dir: bool,
    /// (device, inode) of the file when it was opened: fd numbers are reused, and not every
    /// close goes through the interposed `close` (closedir, for one)
    ino: (u64, u64),
}

fn ino_of(fd: c_int) -> Option<(u64, u64)> {
    let mut sb: libc::stat = unsafe { std::mem::zeroed() };
    if unsafe { libc::fstat(fd, &mut sb) } == 0 {
        Some((sb.st_dev as u64, sb.st_ino as u64))
    } else {
        None
    }
}

pub struct State {
    root: Vec<u8>,
    fds: BTreeMap<c_int, FdInfo>,
    pub journal: Vec<Ev>,
    /// For each journal entry, the index of the faultable call that produced it.
    pub journal_call: Vec<u64>,
    faults: BTreeMap<u64, Fault>,
    /// Faults addressed by (class, path, n-th call of that class on that path since arming).
    path_faults: Vec<(Class, String, u64, FaultKind)>,
    path_counts: BTreeMap<(Class, String), u64>,
    /// From this call index on, every write/mkdir/open(O_CREAT) fails with ENOSPC.
    disk_full_from: Option<u64>,
    call: u64,
    pub stats: Stats,
    /// Trace of faultable calls: (call index, class, relative path).
    pub trace: Vec<(u64, Class, String)>,
    keep_trace: bool,
}

static ACTIVE: AtomicBool = AtomicBool::new(false);
static STATE: Mutex<Option<State>> = Mutex::new(None);
/// Entropy stream of the simulator's main thread (everything the system under test decides
/// with hash-map order happens there) and a separate one for all other threads (blocking
/// pool), so that the real-time order in which threads ask for entropy cannot change what the
/// main thread gets.
static ENTROPY: Mutex<Rng> = Mutex::new(Rng::zero());
static ENTROPY_OTHER: Mutex<Rng> = Mutex::new(Rng::zero());

thread_local! {
    static IN_HOOK: Cell<bool> = const { Cell::new(false) };
    static IS_MAIN: Cell<bool> = const { Cell::new(false) };
}

struct Reent;
impl Reent {
    fn enter() -> Option<Reent> {
        IN_HOOK.with(|c| {
            if c.get() {
                None
            } else {
                c.set(true);
                Some(Reent)
            }
        })
    }
}
impl Drop for Reent {
    fn drop(&mut self) {
        IN_HOOK.with(|c| c.set(false));
    }
}

fn set_errno(e: c_int) {
    unsafe { *libc::__errno_location() = e };
}

// ---------------------------------------------------------------------------------------------
// control API (used by the simulator, on the main thread, between actor steps)
// ---------------------------------------------------------------------------------------------

/// Seed the entropy handed out by `getrandom`.
pub fn seed_entropy(seed: u64) {
    *ENTROPY.lock().unwrap() = Rng::new(seed);
    *ENTROPY_OTHER.lock().unwrap() = Rng::new(seed ^ 0x07E2_07E2_07E2);
    IS_MAIN.with(|m| m.set(true));
}

/// Start observing `root` (absolute path, no trailing slash).
pub fn start(root: &str, keep_trace: bool) {
    let mut g = STATE.lock().unwrap();
    *g = Some(State {
        root: root.as_bytes().to_vec(),
        fds: BTreeMap::new(),
        journal: vec![],
        journal_call: vec![],
        faults: BTreeMap::new(),
        path_faults: vec![],
        path_counts: BTreeMap::new(),
        disk_full_from: None,
        call: 0,
        stats: Stats::default(),
        trace: vec![],
        keep_trace,
    });
    ACTIVE.store(true, Relaxed);
}

pub fn stop() {
    ACTIVE.store(false, Relaxed);
}

pub fn with_state<R>(f: impl FnOnce(&mut State) -> R) -> R {
    let _r = Reent::enter();
    let mut g = STATE.lock().unwrap();
    f(g.as_mut().expect("interposer not started"))
}

pub fn journal_len() -> usize {
    with_state(|s| s.journal.len())
}
pub fn journal_snapshot() -> Vec<Ev> {
    with_state(|s| s.journal.clone())
}
pub fn journal_since(n: usize) -> Vec<Ev> {
    with_state(|s| s.journal[n..].to_vec())
}
pub fn call_count() -> u64 {
    with_state(|s| s.call)
}
pub fn add_fault(f: Fault) {
    with_state(|s| {
        s.faults.insert(f.call, f);
    })
}
pub fn clear_faults() {
    with_state(|s| {
        s.faults.clear();
        s.path_faults.clear();
        s.path_counts.clear();
        s.disk_full_from = None;
    })
}
/// Arm a fault for the `nth` call (from now) of `class` on `path` (root-relative).
pub fn add_path_fault(class: Class, path: &str, nth: u64, kind: FaultKind) {
    with_state(|s| s.path_faults.push((class, path.to_string(), nth, kind)))
}
pub fn set_keep_trace(on: bool) {
    with_state(|s| {
        s.keep_trace = on;
        s.trace.clear();
    })
}
pub fn set_disk_full_from(call: Option<u64>) {
    with_state(|s| s.disk_full_from = call)
}
pub fn stats() -> Stats {
    with_state(|s| s.stats.clone())
}
pub fn take_trace() -> Vec<(u64, Class, String)> {
    with_state(|s| std::mem::take(&mut s.trace))
}

impl State {
    /// Look up an fd, dropping the entry if the fd number now refers to another file.
    fn fd(&mut self, fd: c_int) -> Option<(String, bool)> {
        let info = self.fds.get(&fd)?;
        if ino_of(fd) != Some(info.ino) {
            self.fds.remove(&fd);
            return None;
        }
        Some((info.path.clone(), info.is_dir))
    }

    fn rel(&self, abs: &[u8]) -> Option<String> {
        if abs.len() >= self.root.len() && abs[..self.root.len()] == self.root[..] {
            let rest = &abs[self.root.len()..];
            if rest.is_empty() {
                return Some(String::new());
            }
            if rest[0] == b'/' {
                return Some(String::from_utf8_lossy(&rest[1..]).into_owned());
            }
        }
        None
    }

    /// Resolve `path` (possibly relative to `dirfd`) to a root-relative path.
    unsafe fn resolve(&self, dirfd: c_int, path: *const c_char) -> Option<String> {
        if path.is_null() {
            return None;
        }
        let p = unsafe { CStr::from_ptr(path) }.to_bytes();
        if p.first() == Some(&b'/') {
            return self.rel(p);
        }
        if dirfd == libc::AT_FDCWD {
            return None;
        }
        let base = self.fds.get(&dirfd)?;
        let name = String::from_utf8_lossy(p).into_owned();
        Some(if base.path.is_empty() {
            name
        } else {
            format!("{}/{}", base.path, name)
        })
    }

    /// Account one faultable call; returns the fault to inject, if any.
    fn begin_call(&mut self, class: Class, path: &str) -> (u64, Option<FaultKind>) {
        let idx = self.call;
        self.call += 1;
        self.stats.calls += 1;
        *self
            .stats
            .by_class
            .entry(format!("{class:?}"))
            .or_default() += 1;
        if self.keep_trace {
            self.trace.push((idx, class, path.to_string()));
        }
        let mut kind = None;
        if !self.path_faults.is_empty() {
            // wildcard faults "prefix/*": n-th call of the class on any path below prefix
            for i in 0..self.path_faults.len() {
                let (c, p, nth, k) = self.path_faults[i].clone();
                if c == class {
                    if let Some(prefix) = p.strip_suffix('*') {
                        if path.starts_with(prefix) {
                            let n = self.path_counts.entry((class, p.clone())).or_default();
                            let cur = *n;
                            *n += 1;
                            if cur == nth {
                                kind = Some(k);
                            }
                        }
                    }
                }
            }
            let key = (class, path.to_string());
            let n = self.path_counts.entry(key).or_default();
            let cur = *n;
            *n += 1;
            if let Some(f) = self
                .path_faults
                .iter()
                .find(|f| f.0 == class && f.1 == path && f.2 == cur)
            {
                kind = Some(f.3);
            }
        }
        if let Some(f) = self.faults.get(&idx) {
            if f.class.is_none() || f.class == Some(class) {
                kind = Some(f.kind);
            }
        }
        if kind.is_none() {
            if let Some(from) = self.disk_full_from {
                if idx >= from && matches!(class, Class::Write | Class::Mkdir) {
                    // the disk fills up in the middle of the first affected write: part of its
                    // bytes are written, the rest (and everything later) is refused
                    kind = Some(if idx == from && class == Class::Write {
                        FaultKind::Short
                    } else {
                        FaultKind::Enospc
                    });
                }
            }
        }
        // Only kinds that are legal for the class.
        let kind = match (class, kind) {
            (Class::Write | Class::Read, k) => k,
            (_, Some(FaultKind::Short)) => None,
            (Class::Rename | Class::Unlink | Class::Mkdir, Some(FaultKind::Eintr)) => None,
            (_, k) => k,
        };
        if let Some(k) = kind {
            *self
                .stats
                .faults_fired
                .entry(format!("{class:?}:{k:?}"))
                .or_default() += 1;
        }
        (idx, kind)
    }

    fn push(&mut self, call: u64, ev: Ev) {
        self.journal.push(ev);
        self.journal_call.push(call);
    }
}

fn errno_of(k: FaultKind) -> c_int {
    match k {
        FaultKind::Eio => libc::EIO,
        FaultKind::Enospc => libc::ENOSPC,
        FaultKind::Eintr => libc::EINTR,
        FaultKind::Short => 0,
    }
}

macro_rules! real {
    ($name:literal, $ty:ty) => {{
        static PTR: AtomicUsize = AtomicUsize::new(0);
        let mut p = PTR.load(Relaxed);
        if p == 0 {
            p = unsafe {
                libc::dlsym(libc::RTLD_NEXT, concat!($name, "\0").as_ptr() as *const c_char)
            } as usize;
            if p == 0 {
                unsafe { libc::abort() };
            }
            PTR.store(p, Relaxed);
        }
        unsafe { std::mem::transmute::<usize, $ty>(p) }
    }};
}

/// Run `f` with the interposer state if observation is active and we are not re-entered.
/// Returns None when the call must simply be forwarded.
fn hooked<R>(f: impl FnOnce(&mut State) -> Option<R>) -> Option<R> {
    if !ACTIVE.load(Relaxed) {
        return None;
    }
    let _r = Reent::enter()?;
    let mut g = match STATE.lock() {
        Ok(g) => g,
        Err(p) => p.into_inner(),
    };
    let st = g.as_mut()?;
    f(st)
}

// ---------------------------------------------------------------------------------------------
// open / close
// ---------------------------------------------------------------------------------------------

type OpenFn = unsafe extern "C" fn(*const c_char, c_int, mode_t) -> c_int;
type OpenatFn = unsafe extern "C" fn(c_int, *const c_char, c_int, mode_t) -> c_int;

unsafe fn do_open(
    dirfd: c_int,
    path: *const c_char,
    flags: c_int,
    _mode: mode_t,
    call_real: impl Fn() -> c_int,
) -> c_int {
    let r = hooked(|st| {
        let rel = unsafe { st.resolve(dirfd, path) }?;
        let (call, fault) = st.begin_call(Class::Open, &rel);
        if let Some(k) = fault {
            set_errno(errno_of(k));
            return Some(-1);
        }
        let creating = flags & libc::O_CREAT != 0;
        if creating {
            if let Some(from) = st.disk_full_from {
                if call >= from {
                    // creating a new file on a full disk fails; opening an existing one works
                    let mut sb: libc::stat = unsafe { std::mem::zeroed() };
                    let exists =
                        unsafe { libc::fstatat(dirfd, path, &mut sb, 0) } == 0;
                    if !exists {
                        *st
                            .stats
                            .faults_fired
                            .entry("Open:Enospc".to_string())
                            .or_default() += 1;
                        set_errno(libc::ENOSPC);
                        return Some(-1);
                    }
                }
            }
        }
        let mut existed_len: Option<u64> = None;
        if creating || flags & libc::O_TRUNC != 0 {
            let mut sb: libc::stat = unsafe { std::mem::zeroed() };
            if unsafe { libc::fstatat(dirfd, path, &mut sb, 0) } == 0 {
                existed_len = Some(sb.st_size as u64);
            }
        }
        let fd = call_real();
        if fd >= 0 {
            let is_dir = flags & libc::O_DIRECTORY != 0 || {
                let mut sb: libc::stat = unsafe { std::mem::zeroed() };
                unsafe { libc::fstat(fd, &mut sb) == 0 && (sb.st_mode & libc::S_IFMT) == libc::S_IFDIR }
            };
            if !is_dir {
                match existed_len {
                    None if creating => st.push(call, Ev::Create { path: rel.clone() }),
                    Some(len) if flags & libc::O_TRUNC != 0 && len > 0 => st.push(
                        call,
                        Ev::Truncate {
                            path: rel.clone(),
                            len: 0,
                        },
                    ),
                    _ => {}
                }
            }
            st.fds.insert(
                fd,
                FdInfo {
                    path: rel,
                    is_dir,
                    ino: ino_of(fd).unwrap_or((0, 0)),
                },
            );
        }
        Some(fd)
    });
    match r {
        Some(fd) => fd,
        None => {
            let fd = call_real();
            if fd >= 0 {
                // an unrelated open: forget a stale entry for the reused fd number
                hooked(|st| {
                    st.fds.remove(&fd);
                    None::<()>
                });
            }
            fd
        }
    }
}

#[unsafe(no_mangle)]
pub unsafe extern "C" fn open64(path: *const c_char, flags: c_int, mode: mode_t) -> c_int {
    let real = real!("open64", OpenFn);
    unsafe { do_open(libc::AT_FDCWD, path, flags, mode, || real(path, flags, mode)) }
}

#[unsafe(no_mangle)]
pub unsafe extern "C" fn open(path: *const c_char, flags: c_int, mode: mode_t) -> c_int {
    let real = real!("open", OpenFn);
    unsafe { do_open(libc::AT_FDCWD, path, flags, mode, || real(path, flags, mode)) }
}

#[unsafe(no_mangle)]
pub unsafe extern "C" fn openat64(
    dirfd: c_int,
    path: *const c_char,
    flags: c_int,
    mode: mode_t,
) -> c_int {
    let real = real!("openat64", OpenatFn);
    unsafe { do_open(dirfd, path, flags, mode, || real(dirfd, path, flags, mode)) }
}

#[unsafe(no_mangle)]
pub unsafe extern "C" fn openat(
    dirfd: c_int,
    path: *const c_char,
    flags: c_int,
    mode: mode_t,
) -> c_int {
    let real = real!("openat", OpenatFn);
    unsafe { do_open(dirfd, path, flags, mode, || real(dirfd, path, flags, mode)) }
}

#[unsafe(no_mangle)]
pub unsafe extern "C" fn close(fd: c_int) -> c_int {
    let real = real!("close", unsafe extern "C" fn(c_int) -> c_int);
    hooked(|st| {
        st.fds.remove(&fd);
        None::<()>
    });
    unsafe { real(fd) }
}

// ---------------------------------------------------------------------------------------------
// write family
// ---------------------------------------------------------------------------------------------

#[unsafe(no_mangle)]
pub unsafe extern "C" fn write(fd: c_int, buf: *const c_void, n: size_t) -> ssize_t {
    let real = real!("write", unsafe extern "C" fn(c_int, *const c_void, size_t) -> ssize_t);
    let r = hooked(|st| {
        let path = st.fd(fd)?.0;
        let (call, fault) = st.begin_call(Class::Write, &path);
        let mut len = n;
        match fault {
            Some(FaultKind::Short) if n > 1 => len = n / 2,
            Some(FaultKind::Short) | None => {}
            Some(k) => {
                set_errno(errno_of(k));
                return Some(-1);
            }
        }
        let off = unsafe { libc::lseek(fd, 0, libc::SEEK_CUR) };
        let r = unsafe { real(fd, buf, len) };
        if r > 0 {
            let data = unsafe { std::slice::from_raw_parts(buf as *const u8, r as usize) }.to_vec();
            st.push(
                call,
                Ev::Write {
                    path,
                    off: off.max(0) as u64,
                    data,
                },
            );
        }
        Some(r)
    });
    match r {
        Some(r) => r,
        None => unsafe { real(fd, buf, n) },
    }
}

unsafe fn do_pwrite(
    fd: c_int,
    buf: *const c_void,
    n: size_t,
    off: off_t,
    real: unsafe extern "C" fn(c_int, *const c_void, size_t, off_t) -> ssize_t,
) -> ssize_t {
    let r = hooked(|st| {
        let path = st.fd(fd)?.0;
        let (call, fault) = st.begin_call(Class::Write, &path);
        let mut len = n;
        match fault {
            Some(FaultKind::Short) if n > 1 => len = n / 2,
            Some(FaultKind::Short) | None => {}
            Some(k) => {
                set_errno(errno_of(k));
                return Some(-1);
            }
        }
        let r = unsafe { real(fd, buf, len, off) };
        if r > 0 {
            let data = unsafe { std::slice::from_raw_parts(buf as *const u8, r as usize) }.to_vec();
            st.push(
                call,
                Ev::Write {
                    path,
                    off: off as u64,
                    data,
                },
            );
        }
        Some(r)
    });
    match r {
        Some(r) => r,
        None => unsafe { real(fd, buf, n, off) },
    }
}

#[unsafe(no_mangle)]
pub unsafe extern "C" fn pwrite64(fd: c_int, buf: *const c_void, n: size_t, off: off_t) -> ssize_t {
    let real = real!(
        "pwrite64",
        unsafe extern "C" fn(c_int, *const c_void, size_t, off_t) -> ssize_t
    );
    unsafe { do_pwrite(fd, buf, n, off, real) }
}

#[unsafe(no_mangle)]
pub unsafe extern "C" fn pwrite(fd: c_int, buf: *const c_void, n: size_t, off: off_t) -> ssize_t {
    let real = real!(
        "pwrite",
        unsafe extern "C" fn(c_int, *const c_void, size_t, off_t) -> ssize_t
    );
    unsafe { do_pwrite(fd, buf, n, off, real) }
}

#[unsafe(no_mangle)]
pub unsafe extern "C" fn writev(fd: c_int, iov: *const libc::iovec, cnt: c_int) -> ssize_t {
    let real = real!(
        "writev",
        unsafe extern "C" fn(c_int, *const libc::iovec, c_int) -> ssize_t
    );
    let r = hooked(|st| {
        let path = st.fd(fd)?.0;
        let (call, fault) = st.begin_call(Class::Write, &path);
        match fault {
            Some(FaultKind::Short) | None => {}
            Some(k) => {
                set_errno(errno_of(k));
                return Some(-1);
            }
        }
        let off = unsafe { libc::lseek(fd, 0, libc::SEEK_CUR) };
        let r = unsafe { real(fd, iov, cnt) };
        if r > 0 {
            let mut data = Vec::with_capacity(r as usize);
            let mut left = r as usize;
            for i in 0..cnt as usize {
                let v = unsafe { &*iov.add(i) };
                let take = left.min(v.iov_len);
                data.extend_from_slice(unsafe {
                    std::slice::from_raw_parts(v.iov_base as *const u8, take)
                });
                left -= take;
                if left == 0 {
                    break;
                }
            }
            st.push(
                call,
                Ev::Write {
                    path,
                    off: off.max(0) as u64,
                    data,
                },
            );
        }
        Some(r)
    });
    match r {
        Some(r) => r,
        None => unsafe { real(fd, iov, cnt) },
    }
}

unsafe fn do_ftruncate(
    fd: c_int,
    len: off_t,
    real: unsafe extern "C" fn(c_int, off_t) -> c_int,
) -> c_int {
    let r = hooked(|st| {
        let path = st.fd(fd)?.0;
        let (call, fault) = st.begin_call(Class::Write, &path);
        if let Some(k) = fault {
            // a full disk does not refuse to make a file shorter
            let shrinks = unsafe {
                let mut sb: libc::stat = std::mem::zeroed();
                libc::fstat(fd, &mut sb) == 0 && (len as i64) <= sb.st_size as i64
            };
            if k != FaultKind::Short && !(k == FaultKind::Enospc && shrinks) {
                set_errno(errno_of(k));
                return Some(-1);
            }
        }
        let r = unsafe { real(fd, len) };
        if r == 0 {
            st.push(
                call,
                Ev::Truncate {
                    path,
                    len: len as u64,
                },
            );
        }
        Some(r)
    });
    match r {
        Some(r) => r,
        None => unsafe { real(fd, len) },
    }
}

#[unsafe(no_mangle)]
pub unsafe extern "C" fn ftruncate64(fd: c_int, len: off_t) -> c_int {
    let real = real!("ftruncate64", unsafe extern "C" fn(c_int, off_t) -> c_int);
    unsafe { do_ftruncate(fd, len, real) }
}

#[unsafe(no_mangle)]
pub unsafe extern "C" fn ftruncate(fd: c_int, len: off_t) -> c_int {
    let real = real!("ftruncate", unsafe extern "C" fn(c_int, off_t) -> c_int);
    unsafe { do_ftruncate(fd, len, real) }
}

// ---------------------------------------------------------------------------------------------
// sync
// ---------------------------------------------------------------------------------------------

unsafe fn do_sync(fd: c_int, real: unsafe extern "C" fn(c_int) -> c_int) -> c_int {
    let r = hooked(|st| {
        let (path, is_dir) = st.fd(fd)?;
        let (call, fault) = st.begin_call(Class::Sync, &path);
        if let Some(k) = fault {
            set_errno(errno_of(k));
            return Some(-1);
        }
        let r = unsafe { real(fd) };
        if r == 0 {
            st.push(
                call,
                if is_dir {
                    Ev::SyncDir { path }
                } else {
                    Ev::Sync { path }
                },
            );
        }
        Some(r)
    });
    match r {
        Some(r) => r,
        None => unsafe { real(fd) },
    }
}

#[unsafe(no_mangle)]
pub unsafe extern "C" fn fsync(fd: c_int) -> c_int {
    let real = real!("fsync", unsafe extern "C" fn(c_int) -> c_int);
    unsafe { do_sync(fd, real) }
}

#[unsafe(no_mangle)]
pub unsafe extern "C" fn fdatasync(fd: c_int) -> c_int {
    let real = real!("fdatasync", unsafe extern "C" fn(c_int) -> c_int);
    unsafe { do_sync(fd, real) }
}

// ---------------------------------------------------------------------------------------------
// directory operations
// ---------------------------------------------------------------------------------------------

#[unsafe(no_mangle)]
pub unsafe extern "C" fn mkdir(path: *const c_char, mode: mode_t) -> c_int {
    let real = real!("mkdir", unsafe extern "C" fn(*const c_char, mode_t) -> c_int);
    let r = hooked(|st| {
        let rel = unsafe { st.resolve(libc::AT_FDCWD, path) }?;
        let (call, fault) = st.begin_call(Class::Mkdir, &rel);
        if let Some(k) = fault {
            set_errno(errno_of(k));
            return Some(-1);
        }
        let r = unsafe { real(path, mode) };
        if r == 0 {
            st.push(call, Ev::Mkdir { path: rel });
        }
        Some(r)
    });
    match r {
        Some(r) => r,
        None => unsafe { real(path, mode) },
    }
}

#[unsafe(no_mangle)]
pub unsafe extern "C" fn rename(from: *const c_char, to: *const c_char) -> c_int {
    let real = real!(
        "rename",
        unsafe extern "C" fn(*const c_char, *const c_char) -> c_int
    );
    let r = hooked(|st| {
        let a = unsafe { st.resolve(libc::AT_FDCWD, from) }?;
        let b = unsafe { st.resolve(libc::AT_FDCWD, to) }?;
        let (call, fault) = st.begin_call(Class::Rename, &a);
        if let Some(k) = fault {
            set_errno(errno_of(k));
            return Some(-1);
        }
        let r = unsafe { real(from, to) };
        if r == 0 {
            st.push(call, Ev::Rename { from: a, to: b });
        }
        Some(r)
    });
    match r {
        Some(r) => r,
        None => unsafe { real(from, to) },
    }
}

unsafe fn do_unlinkat(
    dirfd: c_int,
    path: *const c_char,
    flags: c_int,
    call_real: impl Fn() -> c_int,
) -> c_int {
    let r = hooked(|st| {
        let rel = unsafe { st.resolve(dirfd, path) }?;
        let (call, fault) = st.begin_call(Class::Unlink, &rel);
        if let Some(k) = fault {
            set_errno(errno_of(k));
            return Some(-1);
        }
        let r = call_real();
        if r == 0 {
            st.push(
                call,
                if flags & libc::AT_REMOVEDIR != 0 {
                    Ev::Rmdir { path: rel }
                } else {
                    Ev::Unlink { path: rel }
                },
            );
        }
        Some(r)
    });
    match r {
        Some(r) => r,
        None => call_real(),
    }
}

#[unsafe(no_mangle)]
pub unsafe extern "C" fn unlinkat(dirfd: c_int, path: *const c_char, flags: c_int) -> c_int {
    let real = real!(
        "unlinkat",
        unsafe extern "C" fn(c_int, *const c_char, c_int) -> c_int
    );
    unsafe { do_unlinkat(dirfd, path, flags, || real(dirfd, path, flags)) }
}

#[unsafe(no_mangle)]
pub unsafe extern "C" fn unlink(path: *const c_char) -> c_int {
    let real = real!("unlink", unsafe extern "C" fn(*const c_char) -> c_int);
    unsafe { do_unlinkat(libc::AT_FDCWD, path, 0, || real(path)) }
}

#[unsafe(no_mangle)]
pub unsafe extern "C" fn rmdir(path: *const c_char) -> c_int {
    let real = real!("rmdir", unsafe extern "C" fn(*const c_char) -> c_int);
    unsafe { do_unlinkat(libc::AT_FDCWD, path, libc::AT_REMOVEDIR, || real(path)) }
}

// ---------------------------------------------------------------------------------------------
// read family (faults only; reads are not journalled)
// ---------------------------------------------------------------------------------------------

#[unsafe(no_mangle)]
pub unsafe extern "C" fn read(fd: c_int, buf: *mut c_void, n: size_t) -> ssize_t {
    let real = real!("read", unsafe extern "C" fn(c_int, *mut c_void, size_t) -> ssize_t);
    let r = hooked(|st| {
        let (path, is_dir) = st.fd(fd)?;
        if is_dir {
            return None;
        }
        let (_call, fault) = st.begin_call(Class::Read, &path);
        let mut len = n;
        match fault {
            Some(FaultKind::Short) if n > 1 => len = n / 2,
            Some(FaultKind::Short) | None => {}
            Some(FaultKind::Enospc) => {}
            Some(k) => {
                set_errno(errno_of(k));
                return Some(-1);
            }
        }
        Some(unsafe { real(fd, buf, len) })
    });
    match r {
        Some(r) => r,
        None => unsafe { real(fd, buf, n) },
    }
}

unsafe fn do_pread(
    fd: c_int,
    buf: *mut c_void,
    n: size_t,
    off: off_t,
    real: unsafe extern "C" fn(c_int, *mut c_void, size_t, off_t) -> ssize_t,
) -> ssize_t {
    let r = hooked(|st| {
        let path = st.fd(fd)?.0;
        let (_call, fault) = st.begin_call(Class::Read, &path);
        let mut len = n;
        match fault {
            Some(FaultKind::Short) if n > 1 => len = n / 2,
            Some(FaultKind::Short) | None => {}
            Some(FaultKind::Enospc) => {}
            Some(k) => {
                set_errno(errno_of(k));
                return Some(-1);
            }
        }
        Some(unsafe { real(fd, buf, len, off) })
    });
    match r {
        Some(r) => r,
        None => unsafe { real(fd, buf, n, off) },
    }
}

#[unsafe(no_mangle)]
pub unsafe extern "C" fn pread64(fd: c_int, buf: *mut c_void, n: size_t, off: off_t) -> ssize_t {
    let real = real!(
        "pread64",
        unsafe extern "C" fn(c_int, *mut c_void, size_t, off_t) -> ssize_t
    );
    unsafe { do_pread(fd, buf, n, off, real) }
}

#[unsafe(no_mangle)]
pub unsafe extern "C" fn pread(fd: c_int, buf: *mut c_void, n: size_t, off: off_t) -> ssize_t {
    let real = real!(
        "pread",
        unsafe extern "C" fn(c_int, *mut c_void, size_t, off_t) -> ssize_t
    );
    unsafe { do_pread(fd, buf, n, off, real) }
}

// ---------------------------------------------------------------------------------------------
// entropy
// ---------------------------------------------------------------------------------------------

#[unsafe(no_mangle)]
pub unsafe extern "C" fn getrandom(buf: *mut c_void, len: size_t, _flags: c_uint) -> ssize_t {
    if len == 0 || buf.is_null() {
        return 0;
    }
    let out = unsafe { std::slice::from_raw_parts_mut(buf as *mut u8, len) };
    let src = if IS_MAIN.with(|m| m.get()) {
        &ENTROPY
    } else {
        &ENTROPY_OTHER
    };
    let mut g = match src.lock() {
        Ok(g) => g,
        Err(p) => p.into_inner(),
    };
    g.fill(out);
    len as ssize_t
}

/// The `getrandom` crate (ahash's and rand's seeds: the iteration order of the executors' hash
/// maps) does not call the libc function but `syscall(SYS_getrandom, ..)`: interpose the generic
/// wrapper too and forward every other system call untouched.
#[unsafe(no_mangle)]
pub unsafe extern "C" fn syscall(
    num: libc::c_long,
    a1: libc::c_long,
    a2: libc::c_long,
    a3: libc::c_long,
    a4: libc::c_long,
    a5: libc::c_long,
    a6: libc::c_long,
) -> libc::c_long {
    if num == libc::SYS_getrandom {
        return unsafe { getrandom(a1 as *mut c_void, a2 as size_t, a3 as c_uint) } as libc::c_long;
    }
    let real = real!(
        "syscall",
        unsafe extern "C" fn(
            libc::c_long,
            libc::c_long,
            libc::c_long,
            libc::c_long,
            libc::c_long,
            libc::c_long,
            libc::c_long,
        ) -> libc::c_long
    );
    unsafe { real(num, a1, a2, a3, a4, a5, a6) }
}

#[unsafe(no_mangle)]
pub unsafe extern "C" fn getentropy(buf: *mut c_void, len: size_t) -> c_int {
    unsafe { getrandom(buf, len, 0) };
    0
}

// ---------------------------------------------------------------------------------------------
// journal replay: materialise (a prefix of) the journal into a directory
// ---------------------------------------------------------------------------------------------

/// In-memory file tree built from a journal.
#[derive(Clone, Debug, Default, PartialEq, Eq)]
pub struct Tree {
    pub dirs: std::collections::BTreeSet<String>,
    pub files: BTreeMap<String, Vec<u8>>,
    /// Length of each file at its last sync (0 if never synced).
    pub durable_len: BTreeMap<String, u64>,
    /// Directory entries (files and directories) created since the last fsync of their parent
    /// directory: POSIX lets a crash lose them, whatever was fsynced *inside* them.
    pub volatile_entries: std::collections::BTreeSet<String>,
    /// Renames since the last fsync of the directory: (from, to, what `to` held before, was
    /// `from` itself a volatile entry).
    pub volatile_renames: Vec<(String, String, Option<Vec<u8>>, bool)>,
}

fn parent_of(path: &str) -> &str {
    path.rsplit_once('/').map(|x| x.0).unwrap_or("")
}

impl Tree {
    pub fn apply(&mut self, ev: &Ev) {
        match ev {
            Ev::Mkdir { path } => {
                self.dirs.insert(path.clone());
                // (the root of the observed tree is taken as durable)
                if !path.is_empty() {
                    self.volatile_entries.insert(path.clone());
                }
            }
            Ev::Create { path } => {
                self.files.insert(path.clone(), vec![]);
                self.durable_len.insert(path.clone(), 0);
                self.volatile_entries.insert(path.clone());
            }
            Ev::Truncate { path, len } => {
                let f = self.files.entry(path.clone()).or_default();
                f.resize(*len as usize, 0);
                let d = self.durable_len.entry(path.clone()).or_default();
                *d = (*d).min(*len);
            }
            Ev::Write { path, off, data } => {
                let f = self.files.entry(path.clone()).or_default();
                let end = *off as usize + data.len();
                if f.len() < end {
                    f.resize(end, 0);
                }
                f[*off as usize..end].copy_from_slice(data);
            }
            Ev::Sync { path } => {
                let len = self.files.get(path).map(|f| f.len()).unwrap_or(0) as u64;
                self.durable_len.insert(path.clone(), len);
            }
            Ev::SyncDir { path } => {
                let p = path.as_str();
                self.volatile_entries.retain(|e| parent_of(e) != p);
                self.volatile_renames.retain(|(_, to, _, _)| parent_of(to) != p);
            }
            Ev::Rename { from, to } => {
                if let Some(f) = self.files.remove(from) {
                    // (a rename replaces the target atomically: after a crash the name leads to
                    // the old or to the new file, never to nothing - unless the target's own
                    // entry was still volatile)
                    let old = self.files.get(to).cloned();
                    let from_volatile = self.volatile_entries.remove(from);
                    if old.is_none() && from_volatile {
                        self.volatile_entries.insert(to.clone());
                    }
                    self.volatile_renames.push((from.clone(), to.clone(), old, from_volatile));
                    self.files.insert(to.clone(), f);
                    let d = self.durable_len.remove(from).unwrap_or(0);
                    self.durable_len.insert(to.clone(), d);
                }
            }
            Ev::Unlink { path } => {
                self.files.remove(path);
                self.durable_len.remove(path);
                self.volatile_entries.remove(path);
            }
            Ev::Rmdir { path } => {
                self.dirs.remove(path);
                self.volatile_entries.remove(path);
            }
        }
    }

    /// Crash with directory entries lost: undo the renames and drop the entries (with everything
    /// below them) that no fsync of their directory had made durable. `pick(i)` says whether the
    /// i-th candidate is lost (a crash may lose any subset).
    pub fn lose_volatile_entries(&mut self, mut pick: impl FnMut(usize) -> bool) -> usize {
        let mut lost = 0;
        let mut i = 0;
        // renames, newest first
        let renames: Vec<_> = self.volatile_renames.drain(..).rev().collect();
        for (from, to, old, from_volatile) in renames {
            i += 1;
            if !pick(i) {
                continue;
            }
            lost += 1;
            if let Some(cur) = self.files.remove(&to) {
                self.files.insert(from.clone(), cur);
                let d = self.durable_len.remove(&to).unwrap_or(0);
                self.durable_len.insert(from.clone(), d);
                self.volatile_entries.remove(&to);
                if from_volatile {
                    self.volatile_entries.insert(from);
                }
            }
            if let Some(o) = old {
                self.durable_len.insert(to.clone(), o.len() as u64);
                self.files.insert(to, o);
            }
        }
        let entries: Vec<String> = self.volatile_entries.iter().cloned().collect();
        for e in entries {
            i += 1;
            if !pick(i) {
                continue;
            }
            lost += 1;
            let prefix = format!("{e}/");
            self.files.retain(|p, _| *p != e && !p.starts_with(&prefix));
            self.durable_len.retain(|p, _| *p != e && !p.starts_with(&prefix));
            self.dirs.retain(|p| *p != e && !p.starts_with(&prefix));
        }
        self.volatile_entries.clear();
        lost
    }

    pub fn from_journal(j: &[Ev]) -> Tree {
        let mut t = Tree::default();
        for e in j {
            t.apply(e);
        }
        t
    }

    /// Write the tree into `dir` (which must exist and be empty). Uses raw syscalls on paths
    /// outside any observed root, so nothing here is journalled.
    pub fn materialise(&self, dir: &str) -> std::io::Result<()> {
        for d in &self.dirs {
            if !d.is_empty() {
                std::fs::create_dir_all(format!("{dir}/{d}"))?;
            }
        }
        for (p, data) in &self.files {
            std::fs::write(format!("{dir}/{p}"), data)?;
        }
        Ok(())
    }

    /// Read a real directory into a tree (durable_len left empty).
    pub fn from_dir(dir: &str) -> std::io::Result<Tree> {
        fn walk(base: &str, rel: &str, t: &mut Tree) -> std::io::Result<()> {
            let full = if rel.is_empty() {
                base.to_string()
            } else {
                format!("{base}/{rel}")
            };
            let mut names = vec![];
            for e in std::fs::read_dir(&full)? {
                let e = e?;
                names.push((e.file_name().to_string_lossy().into_owned(), e.file_type()?));
            }
            names.sort_by(|a, b| a.0.cmp(&b.0));
            for (n, ty) in names {
                let r = if rel.is_empty() {
                    n.clone()
                } else {
                    format!("{rel}/{n}")
                };
                if ty.is_dir() {
                    t.dirs.insert(r.clone());
                    walk(base, &r, t)?;
                } else {
                    t.files.insert(r.clone(), std::fs::read(format!("{base}/{r}"))?);
                }
            }
            Ok(())
        }
        let mut t = Tree::default();
        walk(dir, "", &mut t)?;
        Ok(t)
    }

    pub fn same_content(&self, other: &Tree) -> Result<(), String> {
        let mut a = self.dirs.clone();
        a.remove("");
        let mut b = other.dirs.clone();
        b.remove("");
        if a != b {
            return Err(format!("directories differ: journal {a:?} vs real {b:?}"));
        }
        if self.files.len() != other.files.len() {
            return Err(format!(
                "file sets differ: journal {:?} vs real {:?}",
                self.files.keys().collect::<Vec<_>>(),
                other.files.keys().collect::<Vec<_>>()
            ));
        }
        for (p, d) in &self.files {
            match other.files.get(p) {
                None => return Err(format!("file {p} missing in real directory")),
                Some(o) if o != d => {
                    return Err(format!(
                        "file {p} differs: journal {} bytes vs real {} bytes",
                        d.len(),
                        o.len()
                    ));
                }
                _ => {}
            }
        }
        Ok(())
    }
}
