//! `corrupt`: C18. A database is built with checksums on (as `default_for_cli`), then at-rest
//! corruptions of column / index files are enumerated: bit flips, byte overwrites, zeroed
//! sectors, truncations x read order (cold open, after the blocks were cached, before any read,
//! with a compaction pass reading the damaged data first). Every later query must fail or
//! return exactly the original rows.

use std::collections::BTreeMap;
use std::time::Duration;

use crate::case::*;
use crate::genr::Step;
use crate::interpose::Tree;
use crate::model::*;
use crate::rng::Rng;
use crate::run::Ctx;
use crate::world::*;

fn apply(tree: &mut Tree, c: &Corruption) -> bool {
    if c.kind == "sibling" {
        // a misdirected write: the file gets the content of another column file of the same
        // row-set that has the same length (every block of it carries a valid checksum)
        let Some((dir, _)) = c.file.rsplit_once('/') else { return false };
        let Some(me) = tree.files.get(&c.file).cloned() else { return false };
        let ext = if c.file.ends_with(".col") { ".col" } else { ".idx" };
        let donor = tree
            .files
            .iter()
            .filter(|(p, d)| {
                **p != c.file
                    && p.ends_with(ext)
                    && p.rsplit_once('/').map(|x| x.0) == Some(dir)
                    && d.len() == me.len()
                    && **d != me
            })
            .map(|(_, d)| d.clone())
            .next();
        return match donor {
            Some(d) => {
                tree.files.insert(c.file.clone(), d);
                true
            }
            None => false,
        };
    }
    let Some(f) = tree.files.get_mut(&c.file) else {
        return false;
    };
    if f.is_empty() {
        return false;
    }
    let pos = (c.pos as usize).min(f.len() - 1);
    match c.kind.as_str() {
        "flip" => f[pos] ^= 1 << (c.bit % 8),
        "byte" => {
            if f[pos] == c.val {
                f[pos] = c.val.wrapping_add(1);
            } else {
                f[pos] = c.val;
            }
        }
        "zero512" => {
            let start = pos / 512 * 512;
            let end = (start + 512).min(f.len());
            if f[start..end].iter().all(|b| *b == 0) {
                return false;
            }
            for b in &mut f[start..end] {
                *b = 0;
            }
        }
        "truncate" => {
            if pos >= f.len() {
                return false;
            }
            f.truncate(pos);
        }
        _ => return false,
    }
    true
}

/// Overwrite the file on disk in place (same inode: open file handles see the change).
fn write_in_place(root: &str, tree: &Tree, file: &str) -> std::io::Result<()> {
    use std::io::Write;
    let path = format!("{root}/{file}");
    let data = &tree.files[file];
    let mut f = std::fs::OpenOptions::new().write(true).open(&path)?;
    f.set_len(data.len() as u64)?;
    f.write_all(data)?;
    f.sync_all()
}

pub async fn run(cx: &mut Ctx) {
    let mut knobs = cx.case.knobs();
    knobs.checksum = 1;
    let steps = cx.case.steps.clone();
    let root = cx.root.clone();
    let t0 = tokio::time::Instant::now();

    // ---------------- phase 1: build the database
    let db = match Db::open(knobs.options(&root)).await {
        Ok(d) => d,
        Err(e) => {
            cx.harness_error = Some(format!("initial open failed: {e}"));
            return;
        }
    };
    let mut model = Model::default();
    for (i, step) in steps.iter().enumerate() {
        cx.log.push(format!("[{i}] {}", step.brief()));
        match step {
            Step::Stmt(s) => {
                let expect = model.expect(s);
                let out = db.exec(&s.sql()).await;
                quiesce().await;
                cx.log.push(format!("    => {}", out.brief()));
                if out.is_ok() && !matches!(expect, Expect::Err(_)) {
                    model.apply(s);
                }
                cx.stats.statements += 1;
            }
            Step::Advance { ms } => advance(Duration::from_millis(*ms)).await,
            Step::Reopen => {}
        }
    }
    // the original rows, as the engine itself returns them from pristine files
    let names: Vec<String> = model.tables.keys().cloned().collect();
    let mut original: BTreeMap<String, Vec<Row>> = BTreeMap::new();
    for n in &names {
        match db.exec(&format!("SELECT * FROM {n}")).await.rows() {
            Some(r) => {
                let mut r = r.clone();
                r.sort();
                original.insert(n.clone(), r);
            }
            None => {
                cx.harness_error = Some(format!("pristine table {n} unreadable"));
                return;
            }
        }
    }
    let _ = db.shutdown().await;
    drop(db);
    quiesce().await;
    crate::interpose::stop();
    cx.case.params.insert("skip_selfcheck".into(), 1);
    let pristine = match Tree::from_dir(&root) {
        Ok(t) => t,
        Err(e) => {
            cx.harness_error = Some(format!("cannot read {root}: {e}"));
            return;
        }
    };
    // which table does a file belong to? directory "<table id>_<rowset id>"; map ids by name
    // through the model order is not reliable, so ask: files of a table are found by probing
    // below (a corruption "affects" the tables whose result changes or fails).
    let files: Vec<String> = pristine
        .files
        .keys()
        .filter(|f| f.ends_with(".col") || f.ends_with(".idx"))
        .cloned()
        .collect();
    if files.is_empty() {
        cx.stats.nontrivial = false;
        return;
    }

    // ---------------- phase 2: corruptions
    let mut plan = cx.case.corruptions.clone();
    if plan.is_empty() {
        let mut rng = Rng::new(cx.case.seed ^ 0xC0AA);
        let per_file = cx.case.param("per_file", 6) as usize;
        for f in &files {
            let len = pristine.files[f].len() as u64;
            if len == 0 {
                continue;
            }
            let mut positions: Vec<u64> = vec![0, len - 1, len / 2];
            // block trailers / footers live at the end of blocks and of the file
            for back in 2..=24 {
                if len > back {
                    positions.push(len - back);
                }
            }
            for _ in 0..per_file {
                positions.push(rng.below(len));
            }
            // the trailer of the last block / the index footer: extra single-bit flips there
            for i in 0..per_file * 2 {
                let back = 1 + rng.below(len.min(24));
                // odd ones: overwrite with a small value (type / enum fields hold small integers,
                // another valid value is the interesting corruption there)
                let small = i % 2 == 1;
                plan.push(Corruption {
                    file: f.clone(),
                    kind: if small { "byte" } else { "flip" }.into(),
                    pos: len - back,
                    bit: rng.below(8) as u8,
                    val: rng.below(20) as u8,
                    mode: rng.below(4) as u8,
                    compact_after: false,
                });
            }
            // a sibling's content (known finding: nothing binds a block to its column), kept to
            // the small share of runs that does not steer around known findings
            if cx.case.param("avoid", 1) == 0 {
                plan.push(Corruption {
                    file: f.clone(),
                    kind: "sibling".into(),
                    pos: 0,
                    bit: 0,
                    val: 0,
                    mode: rng.below(4) as u8,
                    compact_after: false,
                });
            }
            for _ in 0..per_file {
                let pos = positions[rng.usize(positions.len())];
                // zero-filled sectors are a known finding: kept to a small share of the runs
                let kind = if cx.case.param("avoid", 1) == 1 {
                    *rng.pick(&["flip", "flip", "flip", "byte", "byte", "truncate"])
                } else {
                    *rng.pick(&["flip", "flip", "flip", "byte", "zero512", "truncate"])
                };
                plan.push(Corruption {
                    file: f.clone(),
                    kind: kind.into(),
                    pos,
                    bit: rng.below(8) as u8,
                    val: rng.below(256) as u8,
                    mode: rng.below(4) as u8,
                    compact_after: rng.chance(1, 4),
                });
            }
        }
        if cx.case.param("all_trailer_bytes", 0) == 1 {
            for f in &files {
                let len = pristine.files[f].len() as u64;
                for back in 1..=len.min(24) {
                    for bit in 0..8 {
                        plan.push(Corruption {
                            file: f.clone(),
                            kind: "flip".into(),
                            pos: len - back,
                            bit,
                            val: 0,
                            mode: (back % 3) as u8,
                            compact_after: false,
                        });
                    }
                    for val in 0..20u8 {
                        plan.push(Corruption {
                            file: f.clone(),
                            kind: "byte".into(),
                            pos: len - back,
                            bit: 0,
                            val,
                            mode: (val % 3) as u8,
                            compact_after: false,
                        });
                    }
                }
            }
        }
    }

    // bound the work of one run (a run with many files would otherwise take minutes in the
    // thorough tier): a seeded subsample, so that the run stays a function of the seed
    let cap = cx.case.param("max_corruptions", 4000) as usize;
    if cx.case.corruptions.is_empty() && plan.len() > cap {
        let mut rng = Rng::new(cx.case.seed ^ 0x5AB5);
        for i in (1..plan.len()).rev() {
            let j = rng.usize(i + 1);
            plan.swap(i, j);
        }
        plan.truncate(cap);
        cx.probe("corruption-plan-subsampled");
    }
    let mut evaluated = 0u64;
    for (ci, c) in plan.iter().enumerate() {
        let mut tree = pristine.clone();
        if !apply(&mut tree, c) {
            continue;
        }
        evaluated += 1;
        let label = format!(
            "{} {}@{} bit{} val{} mode{}{}",
            c.file,
            c.kind,
            c.pos,
            c.bit,
            c.val,
            c.mode,
            if c.compact_after { " +compaction" } else { "" }
        );
        *cx
            .stats
            .faults
            .entry(format!(
                "corrupt:{}:{}:mode{}{}",
                if c.file.ends_with(".col") { "col" } else { "idx" },
                c.kind,
                c.mode,
                if c.compact_after { ":compact" } else { "" }
            ))
            .or_default() += 1;
        let wroot = format!("{}/c{ci}", cx.base);
        let _ = std::fs::remove_dir_all(&wroot);
        let _ = std::fs::create_dir_all(&wroot);
        let start_tree = if c.mode == 0 { &tree } else { &pristine };
        if let Err(e) = start_tree.materialise(&wroot) {
            cx.harness_error = Some(format!("materialise: {e}"));
            return;
        }
        let vio_before = cx.vio.len();
        if c.mode == 0 {
            // opening a corrupted database may abort the process (allocation of a corrupted
            // length); like a panic at open this is "detected", reported as an observation
            let mut stats = cx.stats.clone();
            stats.nontrivial = evaluated > 0;
            *stats.probes.entry("process-aborted-at-open-of-corrupt-db".into()).or_default() += 1;
            crate::run::set_crumb(Some(&RunResult {
                seed: cx.case.seed,
                violations: cx.vio.clone(),
                stats,
                ..Default::default()
            }));
        }
        let db = match Db::open(knobs.options(&wroot)).await {
            Ok(d) => d,
            Err(e) => {
                // damage found at open: detected. (Whether "the whole database no longer opens"
                // counts against "unaffected tables remain readable" is recorded as an
                // observation, not a verdict; see DESIGN.md.)
                crate::run::set_crumb(None);
                if c.mode == 0 {
                    cx.probe("corruption-detected-at-open");
                    // "Unaffected tables remain readable": a file belongs to one table; when the
                    // open fails as a whole the tables the damage does not touch are unreadable too
                    if names.len() >= 2 {
                        let mut pc = cx.case.clone();
                        pc.corruptions = vec![c.clone()];
                        cx.violate(
                            Violation::new(
                                "C18",
                                "unaffected-tables-unreadable",
                                Some(ci),
                                format!(
                                    "{label}: detected when the database is opened, but the open fails as a whole ({}): none of the {} tables is readable, {} of them untouched",
                                    crate::rng::cut(&e, 120),
                                    names.len(),
                                    names.len() - 1
                                ),
                            )
                            .pin(pc),
                        );
                        if cx.stop_at_first {
                            let _ = std::fs::remove_dir_all(&wroot);
                            break;
                        }
                    }
                } else {
                    cx.harness_error = Some(format!("pristine copy does not open: {e}"));
                    return;
                }
                let _ = std::fs::remove_dir_all(&wroot);
                continue;
            }
        };
        crate::run::set_crumb(None);
        if c.mode == 1 || c.mode == 3 {
            for n in &names {
                let _ = db.exec(&format!("SELECT * FROM {n}")).await;
            }
        }
        if c.mode != 0 {
            if !std::path::Path::new(&format!("{wroot}/{}", c.file)).exists() {
                // the boot-time compaction pass already replaced and vacuumed this row-set
                cx.probe("file-compacted-away-before-corruption");
                let _ = db.shutdown().await;
                drop(db);
                quiesce().await;
                let _ = std::fs::remove_dir_all(&wroot);
                continue;
            }
            if let Err(e) = write_in_place(&wroot, &tree, &c.file) {
                cx.harness_error = Some(format!("corrupting {}: {e}", c.file));
                return;
            }
            if c.mode == 3 {
                // every block has been read (and verified) once; under cache pressure it is
                // read from the - now altered - file again
                if let risinglight::storage::StorageImpl::SecondaryStorage(s) = db.inner.verif_storage() {
                    s.verif_evict_block_cache();
                }
            }
        }
        if c.compact_after {
            advance(Duration::from_millis(1500)).await;
        }
        // reading corrupted data may abort the process (e.g. an absurd allocation while
        // decoding): that is neither an error nor the original rows
        {
            let mut pc = cx.case.clone();
            pc.corruptions = vec![c.clone()];
            let mut r = RunResult {
                seed: cx.case.seed,
                violations: cx.vio.clone(),
                stats: cx.stats.clone(),
                ..Default::default()
            };
            r.stats.nontrivial = true;
            r.violations.push(
                Violation::new(
                    "C18",
                    "process-aborted-on-corrupt-data",
                    Some(ci),
                    format!("{label}: the process aborted while the corrupted database was being read"),
                )
                .pin(pc),
            );
            crate::run::set_crumb(Some(&r));
        }
        // expected rows per table; with `compact_after` every table first gets one more row, so
        // that it has two row-sets and the compactor reads (and would rewrite) the damaged one
        let mut expected = original.clone();
        if c.compact_after {
            for n in &names {
                let def = &model.tables[n].0;
                let row = probe_row(def, c.pos);
                let ins = Stmt::Insert { table: n.clone(), cols: vec![], rows: vec![row.clone()] };
                if db.exec(&ins.sql()).await.is_ok() {
                    let e = expected.get_mut(n).unwrap();
                    e.push(row);
                    e.sort();
                    cx.probe("insert-after-corruption");
                }
            }
            // two compaction passes
            advance(Duration::from_millis(2500)).await;
        }
        // every table, three times (first read and repeated reads)
        let mut detected = false;
        'q: for round in 0..3 {
            for n in &names {
                let o = db.exec(&format!("SELECT * FROM {n}")).await;
                cx.stats.evaluations += 1;
                match &o {
                    Outcome::Ok(rows) => {
                        let mut r = rows.clone();
                        r.sort();
                        if r != expected[n] {
                            cx.violate(
                                Violation::new(
                                    "C18",
                                    "altered-rows-returned",
                                    Some(ci),
                                    format!(
                                        "{label}: read #{round} of {n} returned Ok with {}",
                                        multiset_diff(&r, &expected[n]).unwrap_or_default()
                                    ),
                                )
                                .with_sig(if round == 0 { "first-read" } else { "repeated-read" }),
                            );
                            break 'q;
                        }
                    }
                    Outcome::Err(_) => detected = true,
                    Outcome::Panic(m) => {
                        detected = true;
                        cx.violate(
                            Violation::new(
                                "C18",
                                "panic-on-corrupt-data",
                                Some(ci),
                                format!("{label}: read #{round} of {n} panicked the session: {m}"),
                            )
                            .with_sig(&crate::hist::panic_site(m)),
                        );
                        break 'q;
                    }
                }
            }
        }
        // queries that read only some of the files: the row count (no user column at all) and
        // single columns - each returns an error or exactly what the original table gives
        if cx.vio.len() == vio_before {
            'p: for n in &names {
                let def = &model.tables[n].0;
                let want_rows = &expected[n];
                let mut probes: Vec<(String, Vec<Row>)> =
                    vec![(format!("SELECT count(*) FROM {n}"), vec![vec![Val::Int(want_rows.len() as i64)]])];
                for k in 0..2usize.min(def.cols.len()) {
                    let ci = (ci + k * 7 + c.pos as usize) % def.cols.len();
                    let mut col: Vec<Row> = want_rows.iter().map(|r| vec![r[ci].clone()]).collect();
                    col.sort();
                    probes.push((format!("SELECT {} FROM {n}", def.cols[ci].name), col));
                }
                for (sql, want) in probes {
                    let o = db.exec(&sql).await;
                    cx.stats.evaluations += 1;
                    match &o {
                        Outcome::Ok(rows) => {
                            let mut r = rows.clone();
                            r.sort();
                            if r != want {
                                cx.violate(
                                    Violation::new(
                                        "C18",
                                        "altered-rows-returned",
                                        Some(ci),
                                        format!(
                                            "{label}: {sql} returned Ok with {}",
                                            multiset_diff(&r, &want).unwrap_or_default()
                                        ),
                                    )
                                    .with_sig("partial-read"),
                                );
                                break 'p;
                            }
                        }
                        Outcome::Err(_) => detected = true,
                        Outcome::Panic(m) => {
                            detected = true;
                            cx.violate(
                                Violation::new(
                                    "C18",
                                    "panic-on-corrupt-data",
                                    Some(ci),
                                    format!("{label}: {sql} panicked the session: {m}"),
                                )
                                .with_sig(&crate::hist::panic_site(m)),
                            );
                            break 'p;
                        }
                    }
                }
            }
        }
        crate::run::set_crumb(None);
        if detected {
            cx.probe("corruption-detected-by-query");
        } else {
            cx.probe("corruption-not-observed-by-queries");
        }
        let _ = db.shutdown().await;
        drop(db);
        quiesce().await;
        let _ = std::fs::remove_dir_all(&wroot);
        if cx.vio.len() > vio_before {
            let mut pc = cx.case.clone();
            pc.corruptions = vec![c.clone()];
            for v in cx.vio[vio_before..].iter_mut() {
                v.pinned = Some(Box::new(pc.clone()));
            }
            if cx.stop_at_first {
                break;
            }
        }
    }
    cx.stats.nontrivial = evaluated > 0;
    cx.stats.sim_ns = now_ns(t0) as u64;
    cx.stats.probes.insert("corruptions-applied".into(), evaluated);
    crate::interpose::start(&root, false);
}
