//! The single source of randomness of a run: splitmix64-seeded xoshiro256**.
//! Every choice of a simulated run (knobs, workload, schedule, faults, entropy handed
//! to the process through `getrandom`) is drawn from streams forked off one seed.

#[derive(Clone, Debug)]
pub struct Rng {
    s: [u64; 4],
}

pub fn splitmix(x: &mut u64) -> u64 {
    *x = x.wrapping_add(0x9E37_79B9_7F4A_7C15);
    let mut z = *x;
    z = (z ^ (z >> 30)).wrapping_mul(0xBF58_476D_1CE4_E5B9);
    z = (z ^ (z >> 27)).wrapping_mul(0x94D0_49BB_1331_11EB);
    z ^ (z >> 31)
}

/// Per-run seed derived from the batch seed and the run index.
pub fn run_seed(batch: u64, i: u64) -> u64 {
    let mut x = batch ^ i.wrapping_mul(0xD6E8_FEB8_6659_FD93);
    let a = splitmix(&mut x);
    let b = splitmix(&mut x);
    a ^ b.rotate_left(17) ^ i
}

impl Rng {
    pub const fn zero() -> Rng {
        Rng { s: [1, 2, 3, 4] }
    }
    pub fn new(seed: u64) -> Rng {
        let mut x = seed;
        Rng {
            s: [
                splitmix(&mut x),
                splitmix(&mut x),
                splitmix(&mut x),
                splitmix(&mut x),
            ],
        }
    }
    /// An independent stream (so that adding draws in one component does not shift another).
    pub fn fork(&mut self, label: u64) -> Rng {
        Rng::new(self.next() ^ label.wrapping_mul(0xA24B_AED4_963E_E407))
    }
    pub fn next(&mut self) -> u64 {
        let r = self.s[1].wrapping_mul(5).rotate_left(7).wrapping_mul(9);
        let t = self.s[1] << 17;
        self.s[2] ^= self.s[0];
        self.s[3] ^= self.s[1];
        self.s[1] ^= self.s[2];
        self.s[0] ^= self.s[3];
        self.s[2] ^= t;
        self.s[3] = self.s[3].rotate_left(45);
        r
    }
    /// Uniform in `0..n` (n > 0).
    pub fn below(&mut self, n: u64) -> u64 {
        debug_assert!(n > 0);
        ((self.next() as u128 * n as u128) >> 64) as u64
    }
    pub fn range(&mut self, lo: i64, hi_incl: i64) -> i64 {
        lo + self.below((hi_incl - lo + 1) as u64) as i64
    }
    pub fn usize(&mut self, n: usize) -> usize {
        self.below(n as u64) as usize
    }
    /// True with probability num/den.
    pub fn chance(&mut self, num: u64, den: u64) -> bool {
        self.below(den) < num
    }
    pub fn pick<'a, T>(&mut self, xs: &'a [T]) -> &'a T {
        &xs[self.usize(xs.len())]
    }
    pub fn fill(&mut self, buf: &mut [u8]) {
        for c in buf.chunks_mut(8) {
            let v = self.next().to_le_bytes();
            c.copy_from_slice(&v[..c.len()]);
        }
    }
}

/// FNV-1a, used for event-log hashes (stable across processes, no random state).
#[derive(Clone, Copy)]
pub struct Fnv(pub u64);
impl Default for Fnv {
    fn default() -> Self {
        Fnv(0xcbf2_9ce4_8422_2325)
    }
}
impl Fnv {
    pub fn write(&mut self, b: &[u8]) {
        for &x in b {
            self.0 ^= x as u64;
            self.0 = self.0.wrapping_mul(0x0000_0100_0000_01B3);
        }
    }
    pub fn of(b: &[u8]) -> u64 {
        let mut f = Fnv::default();
        f.write(b);
        f.0
    }
}

/// The longest prefix of `s` of at most `n` bytes that ends on a character boundary.
pub fn cut(s: &str, n: usize) -> &str {
    if s.len() <= n {
        return s;
    }
    let mut i = n;
    while !s.is_char_boundary(i) {
        i -= 1;
    }
    &s[..i]
}
