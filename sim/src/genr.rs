//! Workload generation. Everything is drawn from the run's PRNG; the generator keeps a model
//! of the database so that statements are mostly valid, with a deliberate share of invalid ones.

use serde::{Deserialize, Serialize};

use crate::model::*;
use crate::rng::Rng;

#[derive(Clone, Debug, PartialEq, Serialize, Deserialize)]
pub enum Step {
    Stmt(Stmt),
    /// Advance the simulated clock (>= 1000 ms lets the compactor run a pass, then vacuum).
    Advance { ms: u64 },
    /// Clean shutdown and reopen of the on-disk database.
    Reopen,
}

impl Step {
    pub fn brief(&self) -> String {
        match self {
            Step::Stmt(s) => {
                let q = s.sql();
                if q.len() > 160 {
                    format!("{}… [{} chars]", crate::rng::cut(&q, 160), q.len())
                } else {
                    q
                }
            }
            Step::Advance { ms } => format!("ADVANCE {ms}ms"),
            Step::Reopen => "SHUTDOWN+REOPEN".into(),
        }
    }
}

/// Weights and switches of the history generator; each property uses its own profile.
#[derive(Clone, Debug)]
pub struct Profile {
    pub max_steps: usize,
    pub max_tables: usize,
    pub w_create: u64,
    pub w_drop: u64,
    pub w_view: u64,
    pub w_index: u64,
    pub w_function: u64,
    pub w_insert: u64,
    pub w_insert_select: u64,
    pub w_delete: u64,
    pub w_select: u64,
    /// `DROP TABLE a, b` (one statement, several tables).
    pub multi_drop: bool,
    pub w_order_query: u64,
    pub w_range_query: u64,
    /// Aggregates, GROUP BY, DISTINCT and two-table joins as raw SQL (twin comparison only).
    pub w_raw_query: u64,
    pub w_advance: u64,
    pub w_reopen: u64,
    /// Share (per 100) of deliberately invalid statements.
    pub invalid_pct: u64,
    pub max_rows_per_insert: usize,
    /// Probability (per 100) that a table gets a primary key.
    pub pk_pct: u64,
    /// Allowed primary-key types.
    pub pk_types: Vec<Ty>,
    /// Per 100: all data low-cardinality (no unique id), so compaction picks dictionary encoding.
    pub low_card_pct: u64,
    /// Per 100: a generated key repeats an earlier key (of any table: ids are global, so this
    /// is also what makes the key sets of two tables overlap).
    pub dup_key_pct: u64,
    /// Per 100: a generated key is taken from another table with the same key type.
    pub borrow_key_pct: u64,
    /// Per 100: a new table's primary key gets the key type of an existing table.
    pub same_key_type_pct: u64,
    /// Per 100: a primary key is declared with the table-constraint syntax.
    pub pk_constraint_pct: u64,
    /// Per 100: the run uses table / column names with multi-byte characters.
    pub unicode_names_pct: u64,
    /// Invalid statements include odd CREATE TABLEs (reserved column name, no columns, ...).
    pub odd_ddl: bool,
    /// Primary keys only at column 0 (what the storage range scan supports).
    pub pk_first_only: bool,
    /// Projections of range queries keep the key column first.
    pub key_first_projection: bool,
}

impl Profile {
    pub fn base() -> Profile {
        Profile {
            max_steps: 24,
            max_tables: 3,
            w_create: 6,
            w_drop: 2,
            w_view: 0,
            w_index: 0,
            w_function: 0,
            w_insert: 30,
            w_insert_select: 3,
            w_delete: 14,
            w_select: 10,
            multi_drop: false,
            w_order_query: 0,
            w_range_query: 0,
            w_raw_query: 0,
            w_advance: 10,
            w_reopen: 0,
            invalid_pct: 0,
            max_rows_per_insert: 40,
            pk_pct: 50,
            pk_types: vec![Ty::Int],
            low_card_pct: 15,
            dup_key_pct: 8,
            borrow_key_pct: 0,
            same_key_type_pct: 0,
            pk_constraint_pct: 0,
            unicode_names_pct: 0,
            odd_ddl: false,
            pk_first_only: false,
            key_first_projection: false,
        }
    }
}

pub struct Gen<'a> {
    pub rng: &'a mut Rng,
    pub model: Model,
    pub prof: Profile,
    next_id: i64,
    next_table: usize,
    next_obj: usize,
    low_card: bool,
    unicode_names: bool,
}

/// ISO date of day number `n` (0 = 2000-01-01) in a 12 x 28-day calendar: monotone in `n`.
pub fn date_of(n: i64) -> String {
    let n = n.max(0);
    format!("{:04}-{:02}-{:02}", 2000 + n / 336, (n / 28) % 12 + 1, n % 28 + 1)
}

const STRS: &[&str] = &[
    "a", "b", "c", "ab", "", "zz", "hello", "A", "b b", "x'y", "0123456789abcdef0123456789abcdef",
];

impl<'a> Gen<'a> {
    pub fn new(rng: &'a mut Rng, prof: Profile) -> Gen<'a> {
        let low_card = rng.chance(prof.low_card_pct, 100);
        let unicode_names = rng.chance(prof.unicode_names_pct, 100);
        Gen {
            unicode_names,
            rng,
            model: Model::default(),
            prof,
            next_id: 1,
            next_table: 0,
            next_obj: 0,
            low_card,
        }
    }

    fn val(&mut self, ty: Ty, nullable: bool) -> Val {
        if nullable && self.rng.chance(1, 6) {
            return Val::Null;
        }
        let small = self.low_card;
        match ty {
            Ty::Int => Val::Int(if small {
                self.rng.range(0, 2)
            } else {
                self.rng.range(-5, 20)
            }),
            Ty::BigInt => Val::Int(if small {
                self.rng.range(0, 1) * 10_000_000_000
            } else if self.rng.chance(1, 5) {
                self.rng.range(-3, 3) * 10_000_000_000
            } else {
                self.rng.range(-5, 20)
            }),
            Ty::Varchar => {
                let n = if small { 2 } else { STRS.len() };
                Val::Str(STRS[self.rng.usize(n)].to_string())
            }
            Ty::Bool => Val::Bool(self.rng.chance(1, 2)),
            Ty::Double => Val::F(if small {
                self.rng.range(0, 1) as f64
            } else {
                self.rng.range(-8, 40) as f64 / 4.0
            }),
            Ty::SmallInt => Val::Int(if small {
                self.rng.range(0, 2)
            } else if self.rng.chance(1, 12) {
                *self.rng.pick(&[32767i64, -32768])
            } else {
                self.rng.range(-5, 20)
            }),
            Ty::Decimal => Val::Dec(if small {
                self.rng.range(0, 1) * 100
            } else {
                self.rng.range(-8, 40) * 25
            }),
            Ty::Date => {
                let k = if small { self.rng.range(0, 1) } else { self.rng.range(0, 60) };
                Val::Date(date_of(7000 + k * 13))
            }
        }
    }

    fn key_val(&mut self, ty: Ty) -> Val {
        // primary keys: mostly fresh, sometimes duplicates of earlier keys
        let dup = self.rng.chance(self.prof.dup_key_pct, 100);
        match ty {
            // the ends of the type's range (bounds next to them are where off-by-one and
            // saturating arithmetic on bounds go wrong)
            Ty::Int | Ty::BigInt | Ty::SmallInt if self.rng.chance(1, 25) => {
                let (lo, hi) = match ty {
                    Ty::SmallInt => (i16::MIN as i64, i16::MAX as i64),
                    Ty::Int => (i32::MIN as i64, i32::MAX as i64),
                    _ => (i64::MIN + 1, i64::MAX),
                };
                Val::Int(*self.rng.pick(&[hi, hi, hi - 1, lo, lo + 1]))
            }
            Ty::Int | Ty::BigInt | Ty::SmallInt => {
                if dup {
                    Val::Int(self.rng.range(0, self.next_id.max(1)))
                } else {
                    // not monotone: interleave so that row-sets overlap in key space
                    let k = self.next_id;
                    self.next_id += 1;
                    let k = if self.rng.chance(1, 2) { k } else { 1000 - k };
                    Val::Int(if ty == Ty::BigInt && self.rng.chance(1, 4) {
                        k * 1_000_000_007
                    } else {
                        k
                    })
                }
            }
            Ty::Varchar => {
                let k = if dup {
                    self.rng.range(0, self.next_id.max(1))
                } else {
                    self.next_id += 1;
                    self.next_id - 1
                };
                Val::Str(format!("k{:03}", (k * 37) % 1000))
            }
            Ty::Double => {
                self.next_id += 1;
                Val::F((self.next_id - 1) as f64 / 4.0)
            }
            Ty::Bool => Val::Bool(self.rng.chance(1, 2)),
            Ty::Decimal | Ty::Date => {
                let k = if dup {
                    self.rng.range(0, self.next_id.max(1))
                } else {
                    let k = self.next_id;
                    self.next_id += 1;
                    if self.rng.chance(1, 2) { k } else { 1000 - k }
                };
                if ty == Ty::Date {
                    Val::Date(date_of(k * 3))
                } else {
                    Val::Dec(k * 25 - 5000)
                }
            }
        }
    }

    pub fn gen_table(&mut self) -> TableDef {
        // some runs use identifiers with multi-byte characters (they end up in manifest records:
        // a torn write can cut one in the middle)
        let uni = self.unicode_names;
        let name = if uni {
            format!("täöü{}", self.next_table)
        } else {
            format!("t{}", self.next_table)
        };
        self.next_table += 1;
        let ncols = 1 + self.rng.usize(4);
        let pk = if self.rng.chance(self.prof.pk_pct, 100) {
            let at = self.rng.usize(ncols);
            Some(if self.prof.pk_first_only { 0 } else { at })
        } else {
            None
        };
        let mut cols = vec![];
        for i in 0..ncols {
            let (ty, nullable) = if pk == Some(i) {
                let existing: Vec<Ty> = self
                    .model
                    .tables
                    .values()
                    .filter_map(|(d, _)| d.pk.map(|p| d.cols[p].ty))
                    .collect();
                if !existing.is_empty() && self.rng.chance(self.prof.same_key_type_pct, 100) {
                    (existing[self.rng.usize(existing.len())], false)
                } else {
                    (*self.rng.pick(&self.prof.pk_types.clone()), false)
                }
            } else {
                (
                    *self
                        .rng
                        .pick(&[
                            Ty::Int,
                            Ty::Int,
                            Ty::Int,
                            Ty::BigInt,
                            Ty::BigInt,
                            Ty::Varchar,
                            Ty::Varchar,
                            Ty::Bool,
                            Ty::Double,
                            Ty::SmallInt,
                            Ty::Decimal,
                            Ty::Date,
                        ]),
                    self.rng.chance(2, 3),
                )
            };
            cols.push(Col {
                name: if uni && i % 2 == 1 { format!("cäß{i}") } else { format!("c{i}") },
                ty,
                nullable,
            });
        }
        // a fifth of the keys is declared as a table constraint `PRIMARY KEY (c)`
        let pk_constraint = pk.is_some() && self.rng.chance(self.prof.pk_constraint_pct, 100);
        TableDef { name, cols, pk, pk_constraint }
    }

    fn pick_table(&mut self) -> Option<String> {
        let names: Vec<String> = self.model.tables.keys().cloned().collect();
        if names.is_empty() {
            None
        } else {
            Some(names[self.rng.usize(names.len())].clone())
        }
    }

    pub fn gen_rows(&mut self, def: &TableDef, n: usize) -> Vec<Row> {
        let mut rows = vec![];
        for _ in 0..n {
            let mut r = vec![];
            for (i, c) in def.cols.iter().enumerate() {
                if def.pk == Some(i) && !self.low_card {
                    // sometimes a key that another table of the same key type already holds
                    // (joins on primary keys then match some rows and not others)
                    let mut borrowed = None;
                    if self.rng.chance(self.prof.borrow_key_pct, 100) {
                        let donors: Vec<Val> = self
                            .model
                            .tables
                            .values()
                            .filter(|(d, rows)| {
                                d.name != def.name
                                    && !rows.is_empty()
                                    && d.pk.is_some_and(|p| {
                                        let t = d.cols[p].ty;
                                        let int_ty = |t: Ty| matches!(t, Ty::Int | Ty::BigInt | Ty::SmallInt);
                                        t == c.ty || (int_ty(t) && int_ty(c.ty))
                                    })
                            })
                            .map(|(d, rows)| rows[rows.len() / 2][d.pk.unwrap()].clone())
                            .collect();
                        if !donors.is_empty() {
                            // a key near the donor's median key: existing or a neighbour
                            let v = donors[self.rng.usize(donors.len())].clone();
                            // (keys at the ends of a type's range stay in their own table:
                            // they need not fit the borrower's key type)
                            let far = matches!(&v, Val::Int(k) if k.abs() > 30_000);
                            if !far {
                                borrowed = Some(match (&v, self.rng.usize(3)) {
                                    (Val::Int(k), 1) => Val::Int(k + 1),
                                    _ => v,
                                });
                            }
                        }
                    }
                    match borrowed {
                        Some(v) => r.push(v),
                        None => r.push(self.key_val(c.ty)),
                    }
                } else {
                    r.push(self.val(c.ty, c.nullable && def.pk != Some(i)));
                }
            }
            rows.push(r);
        }
        rows
    }

    pub fn gen_insert(&mut self, table: &str) -> Stmt {
        let def = self.model.tables[table].0.clone();
        let max = self.prof.max_rows_per_insert.max(1);
        let n = if self.rng.chance(1, 4) {
            1 + self.rng.usize(max)
        } else {
            1 + self.rng.usize(max.min(8))
        };
        // sometimes a column subset (omitted nullable columns become NULL)
        let omit: Vec<usize> = (0..def.cols.len())
            .filter(|i| def.cols[*i].nullable && def.pk != Some(*i) && self.rng.chance(1, 10))
            .collect();
        let rows = self.gen_rows(&def, n);
        if omit.is_empty() || omit.len() == def.cols.len() {
            Stmt::Insert {
                table: table.into(),
                cols: vec![],
                rows,
            }
        } else {
            let keep: Vec<usize> = (0..def.cols.len()).filter(|i| !omit.contains(i)).collect();
            Stmt::Insert {
                table: table.into(),
                cols: keep.iter().map(|i| def.cols[*i].name.clone()).collect(),
                rows: rows
                    .into_iter()
                    .map(|r| keep.iter().map(|i| r[*i].clone()).collect())
                    .collect(),
            }
        }
    }

    pub fn gen_atom(&mut self, def: &TableDef, ci: usize) -> Atom {
        let c = &def.cols[ci];
        if c.nullable && self.rng.chance(1, 6) {
            return if self.rng.chance(1, 2) {
                Atom::IsNull { col: c.name.clone() }
            } else {
                Atom::IsNotNull { col: c.name.clone() }
            };
        }
        let op = match c.ty {
            Ty::Bool => *self.rng.pick(&[Cmp::Eq, Cmp::Ne]),
            _ => *self
                .rng
                .pick(&[Cmp::Eq, Cmp::Ne, Cmp::Lt, Cmp::Le, Cmp::Gt, Cmp::Ge]),
        };
        // constants: prefer values that occur in the table
        let rows = &self.model.tables[&def.name].1;
        let val = if !rows.is_empty() && self.rng.chance(2, 3) {
            let r = &rows[self.rng.usize(rows.len())];
            if r[ci].is_null() {
                self.val(c.ty, false)
            } else {
                r[ci].clone()
            }
        } else {
            self.val(c.ty, false)
        };
        // occasionally a constant of another numeric type, or the NULL literal
        let val = if self.rng.chance(1, 16) {
            match (c.ty, self.rng.usize(3)) {
                (_, 0) => Val::Null,
                (Ty::Int | Ty::SmallInt | Ty::BigInt, 1) => match &val {
                    Val::Int(k) => Val::F(*k as f64 + 0.5),
                    _ => val,
                },
                (Ty::Int | Ty::SmallInt, _) => Val::Int(*self.rng.pick(&[5_000_000_000i64, -5_000_000_000])),
                (Ty::Double | Ty::Decimal, _) => Val::Int(self.rng.range(-3, 12)),
                _ => val,
            }
        } else {
            val
        };
        let a = Atom::Cmp {
            col: c.name.clone(),
            op,
            val,
        };
        if self.rng.chance(1, 10) {
            if let Atom::Cmp { col, op, val } = a.clone() {
                return Atom::CmpFlipped { col, op, val };
            }
        }
        a
    }

    pub fn gen_pred(&mut self, def: &TableDef, allow_empty: bool) -> Pred {
        if allow_empty && self.rng.chance(1, 8) {
            return Pred::default();
        }
        let n = 1 + self.rng.usize(2);
        let mut atoms = vec![];
        for _ in 0..n {
            let ci = self.rng.usize(def.cols.len());
            atoms.push(self.gen_atom(def, ci));
        }
        Pred(atoms)
    }

    /// A predicate that starts with a comparison on the primary key (range scan candidates).
    pub fn gen_range_pred(&mut self, def: &TableDef) -> Pred {
        let pk = def.pk.expect("range pred needs pk");
        let c = def.cols[pk].clone();
        let rows = self.model.tables[&def.name].1.clone();
        let mut pick_key = |g: &mut Self| -> Val {
            if !rows.is_empty() && g.rng.chance(3, 4) {
                let v = rows[g.rng.usize(rows.len())][pk].clone();
                // present key, or a neighbour (absent / below / above)
                match (&v, g.rng.usize(4)) {
                    (Val::Int(i), 1) => Val::Int(i.saturating_add(1)),
                    (Val::Int(i), 2) => Val::Int(i.saturating_sub(1)),
                    _ => v,
                }
            } else {
                match c.ty {
                    Ty::Int | Ty::BigInt | Ty::SmallInt if g.rng.chance(1, 8) => {
                        let (lo, hi) = match c.ty {
                            Ty::SmallInt => (i16::MIN as i64, i16::MAX as i64),
                            Ty::Int => (i32::MIN as i64, i32::MAX as i64),
                            _ => (i64::MIN + 1, i64::MAX),
                        };
                        Val::Int(*g.rng.pick(&[hi, hi, hi - 1, lo, lo + 1]))
                    }
                    Ty::Int | Ty::BigInt | Ty::SmallInt => Val::Int(g.rng.range(-10, 1010)),
                    _ => g.key_val(c.ty),
                }
            }
        };
        let mut atoms = vec![];
        match self.rng.usize(4) {
            0 => atoms.push(Atom::Cmp {
                col: c.name.clone(),
                op: Cmp::Eq,
                val: pick_key(self),
            }),
            1 => atoms.push(Atom::Cmp {
                col: c.name.clone(),
                op: *self.rng.pick(&[Cmp::Lt, Cmp::Le]),
                val: pick_key(self),
            }),
            2 => atoms.push(Atom::Cmp {
                col: c.name.clone(),
                op: *self.rng.pick(&[Cmp::Gt, Cmp::Ge]),
                val: pick_key(self),
            }),
            _ => {
                atoms.push(Atom::Cmp {
                    col: c.name.clone(),
                    op: *self.rng.pick(&[Cmp::Gt, Cmp::Ge]),
                    val: pick_key(self),
                });
                atoms.push(Atom::Cmp {
                    col: c.name.clone(),
                    op: *self.rng.pick(&[Cmp::Lt, Cmp::Le]),
                    val: pick_key(self),
                });
            }
        }
        // more conjuncts on the key: a second lower / upper bound, an equality next to a range
        // (agreeing with it or contradicting it)
        // (at most three conjuncts on the key: with four of them plus a residual condition the
        // optimizer's rewriting does not terminate in minutes - a performance pathology outside
        // the listed properties, and a run that long is of no use here)
        if self.rng.chance(1, 4) {
            for _ in 0..(1 + self.rng.usize(2)).min(3 - atoms.len()) {
                let op = *self.rng.pick(&[Cmp::Eq, Cmp::Lt, Cmp::Le, Cmp::Gt, Cmp::Ge]);
                let val = pick_key(self);
                atoms.push(Atom::Cmp { col: c.name.clone(), op, val });
            }
            // in any order
            for i in (1..atoms.len()).rev() {
                let j = self.rng.usize(i + 1);
                atoms.swap(i, j);
            }
        }
        // constants of another type than an integer key: beyond its range, fractional, NULL
        if matches!(c.ty, Ty::Int | Ty::SmallInt) && self.rng.chance(1, 8) {
            let i = self.rng.usize(atoms.len());
            if let Atom::Cmp { val, .. } = &mut atoms[i] {
                *val = match self.rng.usize(5) {
                    0 => Val::Int(5_000_000_000),
                    1 => Val::Int(-5_000_000_000),
                    2 => Val::Null,
                    _ => match &*val {
                        Val::Int(k) => Val::F(*k as f64 + 0.5),
                        _ => Val::F(2.5),
                    },
                };
            }
        }
        // the constant written first (`5 < k`)
        for a in atoms.iter_mut() {
            if self.rng.chance(1, 5) {
                if let Atom::Cmp { col, op, val } = a.clone() {
                    *a = Atom::CmpFlipped { col, op, val };
                }
            }
        }
        // residual predicate on another column
        if def.cols.len() > 1 && self.rng.chance(1, 2) {
            let mut ci = self.rng.usize(def.cols.len());
            if ci == pk {
                ci = (ci + 1) % def.cols.len();
            }
            atoms.push(self.gen_atom(def, ci));
        }
        Pred(atoms)
    }

    /// Queries whose on-disk plan depends on the primary-key order of the storage scan: the
    /// optimizer turns a hash join on primary keys into a merge join, an aggregation grouped by
    /// the primary key into a sort aggregation, and drops ORDER BY on the primary key. The
    /// in-memory twin plans none of these.
    pub fn gen_order_plan_query(&mut self) -> Option<Stmt> {
        let with_pk: Vec<TableDef> = self
            .model
            .tables
            .values()
            .filter(|(d, _)| d.pk.is_some())
            .map(|(d, _)| d.clone())
            .collect();
        if with_pk.is_empty() {
            return None;
        }
        let a = with_pk[self.rng.usize(with_pk.len())].clone();
        let ak = a.cols[a.pk.unwrap()].clone();
        // partner with the same key type: the table itself unless another one qualifies
        // (integer keys of different widths are partners too: `INT = BIGINT` is a legal join)
        let int_ty = |t: Ty| matches!(t, Ty::Int | Ty::BigInt | Ty::SmallInt);
        let partners: Vec<TableDef> = with_pk
            .iter()
            .filter(|d| {
                let t = d.cols[d.pk.unwrap()].ty;
                t == ak.ty || (int_ty(t) && int_ty(ak.ty))
            })
            .cloned()
            .collect();
        let others: Vec<TableDef> = partners.iter().filter(|d| d.name != a.name).cloned().collect();
        let b = if others.is_empty() || self.rng.chance(1, 4) {
            a.clone()
        } else {
            others[self.rng.usize(others.len())].clone()
        };
        let bk = b.cols[b.pk.unwrap()].clone();
        let int_of = |d: &TableDef| -> Option<String> {
            d.cols
                .iter()
                .enumerate()
                .filter(|(i, c)| c.ty == Ty::Int && Some(*i) != d.pk)
                .map(|(_, c)| c.name.clone())
                .next()
        };
        let other = |g: &mut Self, d: &TableDef| -> String {
            d.cols[g.rng.usize(d.cols.len())].name.clone()
        };
        let range = |g: &mut Self, d: &TableDef, alias: &str| -> String {
            if g.rng.chance(1, 2) {
                return String::new();
            }
            let mut p = g.gen_range_pred(d);
            if !alias.is_empty() {
                for a in p.0.iter_mut() {
                    match a {
                        Atom::Cmp { col, .. }
                        | Atom::CmpFlipped { col, .. }
                        | Atom::IsNull { col }
                        | Atom::IsNotNull { col } => {
                            *col = format!("{alias}.{col}");
                        }
                    }
                }
            }
            p.sql()
        };
        let shape = self.rng.usize(24);
        if shape == 23 {
            // a guard on the key next to an expression that fails where the guard is false
            // (on disk the guard is evaluated in the scan, before the rest of the condition)
            if !int_ty(ak.ty) {
                return None;
            }
            let c = self.rng.usize(4) as i64 - 1;
            return Some(Stmt::Raw(format!(
                "SELECT * FROM {t} WHERE {k} > {c} AND {d} % {k} = 0",
                t = a.name,
                k = ak.name,
                d = 6 + self.rng.usize(20)
            )));
        }
        if shape == 22 {
            // join / semi join on columns of different numeric kinds (`=` converts; a plan that
            // makes them hash or merge keys must agree with one that evaluates `=`)
            let num = |t: Ty| matches!(t, Ty::SmallInt | Ty::Int | Ty::BigInt | Ty::Double | Ty::Decimal);
            let kind = |t: Ty| match t {
                Ty::Double => 1,
                Ty::Decimal => 2,
                _ => 0,
            };
            let mut pairs = vec![];
            for x in a.cols.iter().filter(|c| num(c.ty)) {
                for y in b.cols.iter().filter(|c| num(c.ty)) {
                    if kind(x.ty) != kind(y.ty) {
                        pairs.push((x.name.clone(), y.name.clone()));
                    }
                }
            }
            if pairs.is_empty() {
                return None;
            }
            let (xc, yc) = pairs[self.rng.usize(pairs.len())].clone();
            let sql = match self.rng.usize(3) {
                0 => format!(
                    "SELECT x.{}, x.{xc}, y.{yc} FROM {} x JOIN {} y ON x.{xc} = y.{yc}",
                    ak.name, a.name, b.name
                ),
                1 => format!(
                    "SELECT x.{}, x.{xc}, y.{yc} FROM {} x LEFT JOIN {} y ON x.{xc} = y.{yc}",
                    ak.name, a.name, b.name
                ),
                _ => format!(
                    "SELECT x.{}, x.{xc} FROM {} x WHERE EXISTS (SELECT 1 FROM {} y WHERE y.{yc} = x.{xc})",
                    ak.name, a.name, b.name
                ),
            };
            return Some(Stmt::Raw(sql));
        }
        if shape >= 15 {
            // shapes whose two plans (in-memory statistics vs on-disk statistics, disk-only rules)
            // differ in more than the join algorithm
            let nonkey = |d: &TableDef| -> Vec<Col> {
                d.cols
                    .iter()
                    .enumerate()
                    .filter(|(i, _)| Some(*i) != d.pk)
                    .map(|(_, c)| c.clone())
                    .collect()
            };
            let c = self.rng.usize(9) as i64 - 1;
            match shape {
                15 => {
                    // ORDER BY a key that is not in the select list (the scan may prune it);
                    // the sequence is determined when the keys are distinct
                    let rows = &self.model.tables[&a.name].1;
                    let ki = a.pk.unwrap();
                    let mut ks: Vec<&Val> = rows.iter().map(|r| &r[ki]).collect();
                    let n = ks.len();
                    ks.sort();
                    ks.dedup();
                    let nk = nonkey(&a);
                    if ks.len() == n && !nk.is_empty() {
                        let v = nk[self.rng.usize(nk.len())].name.clone();
                        let desc = self.rng.chance(1, 4);
                        let w = range(self, &a, "");
                        let sql = format!(
                            "SELECT {v} FROM {}{w} ORDER BY {}{}",
                            a.name,
                            ak.name,
                            if desc { " DESC" } else { "" }
                        );
                        return Some(Stmt::RawOrdered { sql, keys: vec![(0, desc)] });
                    }
                }
                16 => {
                    // outer join whose ON clause has a one-sided conjunct (must not become a
                    // filter of the preserved side)
                    let jt = *self.rng.pick(&["LEFT JOIN", "LEFT JOIN", "FULL JOIN", "RIGHT JOIN"]);
                    let (side, d) = if self.rng.chance(2, 3) { ("x", &a) } else { ("y", &b) };
                    let ic = int_of(d).or_else(|| {
                        let k = &d.cols[d.pk.unwrap()];
                        int_ty(k.ty).then(|| k.name.clone())
                    });
                    if let Some(ic) = ic {
                        let on = if self.rng.chance(3, 4) {
                            format!("x.{} = y.{} AND {side}.{ic} < {c}", ak.name, bk.name)
                        } else {
                            format!("{side}.{ic} < {c}")
                        };
                        let xa = other(self, &a);
                        return Some(Stmt::Raw(format!(
                            "SELECT x.{}, x.{xa}, y.{} FROM {} x {jt} {} y ON {on}",
                            ak.name, bk.name, a.name, b.name
                        )));
                    }
                }
                17 => {
                    // EXISTS / NOT EXISTS whose subquery has a conjunct on the outer row only
                    let ic = int_of(&a).or_else(|| int_ty(ak.ty).then(|| ak.name.clone()));
                    if let Some(ic) = ic {
                        let neg = if self.rng.chance(1, 2) { "NOT " } else { "" };
                        return Some(Stmt::Raw(format!(
                            "SELECT x.{}, x.{ic} FROM {} x WHERE {neg}EXISTS (SELECT 1 FROM {} y WHERE y.{} = x.{} AND x.{ic} < {c})",
                            ak.name, a.name, b.name, bk.name, ak.name
                        )));
                    }
                }
                18 => {
                    // semi / anti join on nullable columns (NULL matches nothing)
                    let na = nonkey(&a);
                    let mut pairs = vec![];
                    for x in &na {
                        for d in [&a, &b] {
                            for y in nonkey(d) {
                                if y.ty == x.ty && x.ty != Ty::Bool {
                                    pairs.push((x.name.clone(), d.name.clone(), y.name.clone()));
                                }
                            }
                        }
                    }
                    if !pairs.is_empty() {
                        let (xc, t2, yc) = pairs[self.rng.usize(pairs.len())].clone();
                        let neg = if self.rng.chance(1, 2) { "NOT " } else { "" };
                        let sql = if self.rng.chance(1, 2) {
                            format!(
                                "SELECT x.{}, x.{xc} FROM {} x WHERE {neg}EXISTS (SELECT 1 FROM {t2} y WHERE y.{yc} = x.{xc})",
                                ak.name, a.name
                            )
                        } else {
                            format!(
                                "SELECT {}, {xc} FROM {} WHERE {xc} {neg}IN (SELECT {yc} FROM {t2})",
                                ak.name, a.name
                            )
                        };
                        return Some(Stmt::Raw(sql));
                    }
                }
                19 => {
                    // aggregates whose partial results are combined per chunk
                    let nums: Vec<Col> = a
                        .cols
                        .iter()
                        .filter(|c| matches!(c.ty, Ty::SmallInt | Ty::Int | Ty::BigInt | Ty::Decimal))
                        .cloned()
                        .collect();
                    if !nums.is_empty() {
                        let nc = nums[self.rng.usize(nums.len())].clone();
                        let n = nc.name.clone();
                        // (no partial sum may overflow in any order: whether an intermediate
                        // overflow is noticed depends on the build, not on the engine)
                        let ci = a.col_idx(&n).unwrap();
                        let total: i128 = self.model.tables[&a.name]
                            .1
                            .iter()
                            .map(|r| match &r[ci] {
                                Val::Int(v) => (*v as i128).abs(),
                                _ => 0,
                            })
                            .sum();
                        let cap: i128 = match nc.ty {
                            Ty::SmallInt => i16::MAX as i128,
                            Ty::Int => i32::MAX as i128,
                            _ => i64::MAX as i128,
                        };
                        let w = range(self, &a, "");
                        let sum = if total <= cap { format!("sum({n}), ") } else { String::new() };
                        return Some(Stmt::Raw(format!(
                            "SELECT {sum}count({n}), min({n}), max({n}) FROM {}{w}",
                            a.name
                        )));
                    }
                }
                20 => {
                    // a bare BOOLEAN column next to a key range (the range goes into the scan,
                    // the column stays behind as the whole filter condition)
                    let bs: Vec<Col> = a.cols.iter().filter(|c| c.ty == Ty::Bool).cloned().collect();
                    if !bs.is_empty() && int_ty(ak.ty) {
                        let bc = bs[self.rng.usize(bs.len())].name.clone();
                        let not = if self.rng.chance(1, 4) { "NOT " } else { "" };
                        return Some(Stmt::Raw(format!(
                            "SELECT * FROM {} WHERE {not}{bc} AND {} < {c}",
                            a.name, ak.name
                        )));
                    }
                }
                _ => {
                    // count over a join whose inputs need no columns at all
                    let ic = int_of(&a).or_else(|| int_ty(ak.ty).then(|| ak.name.clone()));
                    if let Some(ic) = ic {
                        return Some(Stmt::Raw(format!(
                            "SELECT count(*) FROM {} x, {} y WHERE x.{ic} = {c}",
                            a.name, b.name
                        )));
                    }
                }
            }
            return None;
        }
        if shape >= 13 {
            // aggregation grouped by the key, ordered by it, possibly cut by LIMIT (group keys
            // are unique, so the cut is well defined): the on-disk plan drops the sort
            let w = match self.rng.usize(3) {
                0 => String::new(),
                1 => format!(" WHERE {} IS NOT NULL", ak.name),
                _ => range(self, &a, ""),
            };
            let desc = self.rng.chance(1, 4);
            let lim = if self.rng.chance(2, 3) {
                format!(" LIMIT {}", 1 + self.rng.usize(6))
            } else {
                String::new()
            };
            let sql = format!(
                "SELECT {k}, count(*) FROM {t}{w} GROUP BY {k} ORDER BY {k}{d}{lim}",
                k = ak.name,
                t = a.name,
                d = if desc { " DESC" } else { "" }
            );
            return Some(Stmt::RawOrdered { sql, keys: vec![(0, desc)] });
        }
        if shape >= 9 {
            // ORDER BY over a join on primary keys (an outer join's NULL-extended side is not
            // ordered by its key although the merge join consumes it in key order)
            let jt = *self
                .rng
                .pick(&["JOIN", "LEFT JOIN", "RIGHT JOIN", "FULL JOIN"]);
            let desc = self.rng.chance(1, 4);
            let (ord, pos) = if self.rng.chance(1, 2) {
                (format!("y.{}", bk.name), 1usize)
            } else {
                (format!("x.{}", ak.name), 0usize)
            };
            let yb = other(self, &b);
            let sql = format!(
                "SELECT x.{}, y.{}, y.{yb} FROM {} x {jt} {} y ON x.{} = y.{} ORDER BY {ord}{}",
                ak.name,
                bk.name,
                a.name,
                b.name,
                ak.name,
                bk.name,
                if desc { " DESC" } else { "" }
            );
            return Some(Stmt::RawOrdered { sql, keys: vec![(pos, desc)] });
        }
        if shape >= 7 {
            // semi / anti joins on primary keys
            let neg = if self.rng.chance(1, 3) { "NOT " } else { "" };
            let xa = other(self, &a);
            let sql = if shape == 7 {
                format!(
                    "SELECT {}, {xa} FROM {} WHERE {} {neg}IN (SELECT {} FROM {})",
                    ak.name, a.name, ak.name, bk.name, b.name
                )
            } else {
                format!(
                    "SELECT x.{}, x.{xa} FROM {} x WHERE {neg}EXISTS (SELECT 1 FROM {} y WHERE y.{} = x.{})",
                    ak.name, a.name, b.name, bk.name, ak.name
                )
            };
            return Some(Stmt::Raw(sql));
        }
        let sql = match shape {
            0 | 1 | 2 => {
                let jt = *self
                    .rng
                    .pick(&["JOIN", "JOIN", "LEFT JOIN", "RIGHT JOIN", "FULL JOIN"]);
                let xa = other(self, &a);
                let yb = other(self, &b);
                let mut on = format!("x.{} = y.{}", ak.name, bk.name);
                if let (Some(ia), Some(ib), true) = (int_of(&a), int_of(&b), self.rng.chance(1, 4)) {
                    on.push_str(&format!(" AND x.{ia} <= y.{ib}"));
                }
                let w = if jt == "JOIN" { range(self, &a, "x") } else { String::new() };
                format!(
                    "SELECT x.{}, x.{xa}, y.{}, y.{yb} FROM {} x {jt} {} y ON {on}{w}",
                    ak.name, bk.name, a.name, b.name
                )
            }
            3 => {
                let w = range(self, &a, "");
                match int_of(&a) {
                    Some(c) => format!(
                        "SELECT {k}, count(*), sum({c}), min({c}) FROM {t}{w} GROUP BY {k}",
                        k = ak.name,
                        t = a.name
                    ),
                    None => format!(
                        "SELECT {k}, count(*) FROM {t}{w} GROUP BY {k}",
                        k = ak.name,
                        t = a.name
                    ),
                }
            }
            4 => format!(
                "SELECT x.{k}, count(*) FROM {ta} x JOIN {tb} y ON x.{k} = y.{k2} GROUP BY x.{k}",
                k = ak.name,
                k2 = bk.name,
                ta = a.name,
                tb = b.name
            ),
            5 => {
                let w = range(self, &a, "");
                format!("SELECT DISTINCT {} FROM {}{w}", ak.name, a.name)
            }
            _ => {
                let c = partners[self.rng.usize(partners.len())].clone();
                let ck = c.cols[c.pk.unwrap()].name.clone();
                format!(
                    "SELECT x.{}, z.{ck} FROM {} x JOIN {} y ON x.{} = y.{} JOIN {} z ON y.{} = z.{ck}",
                    ak.name, a.name, b.name, ak.name, bk.name, c.name, bk.name
                )
            }
        };
        Some(Stmt::Raw(sql))
    }

    pub fn gen_projection(&mut self, def: &TableDef) -> Vec<String> {
        if self.rng.chance(1, 2) {
            return vec![];
        }
        // a non-empty subset in random order
        let mut idx: Vec<usize> = (0..def.cols.len()).collect();
        for i in (1..idx.len()).rev() {
            let j = self.rng.usize(i + 1);
            idx.swap(i, j);
        }
        let k = 1 + self.rng.usize(idx.len());
        idx.truncate(k);
        idx.iter().map(|i| def.cols[*i].name.clone()).collect()
    }

    pub fn gen_order_query(&mut self, table: &str) -> Query {
        let def = self.model.tables[table].0.clone();
        let nrows = self.model.tables[table].1.len() as u64;
        let mut q = Query::star(table);
        let nk = 1 + self.rng.usize(2.min(def.cols.len()));
        let mut used = vec![];
        for k in 0..nk {
            // bias the first key towards the primary key (the planner's special case)
            let ci = if k == 0 && def.pk.is_some() && self.rng.chance(1, 2) {
                def.pk.unwrap()
            } else {
                self.rng.usize(def.cols.len())
            };
            if used.contains(&ci) {
                continue;
            }
            used.push(ci);
            q.order.push(OrderKey {
                col: def.cols[ci].name.clone(),
                desc: self.rng.chance(1, 3),
            });
        }
        if self.rng.chance(1, 3) {
            q.pred = self.gen_pred(&def, false);
        }
        if self.rng.chance(1, 2) {
            q.limit = Some(self.rng.below(nrows + 3));
        }
        if self.rng.chance(1, 3) {
            q.offset = Some(self.rng.below(nrows + 3));
        }
        // LIMIT / OFFSET over an unordered query is part of the property too
        if (q.limit.is_some() || q.offset.is_some()) && self.rng.chance(1, 3) {
            q.order.clear();
        }
        // sometimes over an aggregation grouped by the (first) sort key: group keys are unique,
        // so ORDER BY g LIMIT n is fully determined; on a primary key the on-disk plan is a sort
        // aggregation and the sort is dropped
        if self.rng.chance(1, 6) {
            let g = match q.order.first() {
                Some(k) => k.col.clone(),
                None => def.cols[self.rng.usize(def.cols.len())].name.clone(),
            };
            q.order.truncate(1);
            q.group_by = Some(g);
        }
        q
    }

    fn invalid_stmt(&mut self) -> Stmt {
        let existing = self.pick_table();
        if self.prof.odd_ddl && self.rng.chance(1, 3) {
            // statements the engine must reject (or survive) without lasting damage
            self.next_obj += 1;
            let n = self.next_obj;
            return Stmt::Raw(match self.rng.usize(4) {
                // a user table in the system schema (ids are per schema, the storage keys by
                // the bare table id)
                3 => format!("CREATE TABLE pg_catalog.odd{n} (c0 INT); DROP TABLE pg_catalog.odd{n}"),
                0 => format!("CREATE TABLE odd{n} (_rowid_ INT, c1 INT)"),
                1 => format!("CREATE TABLE odd{n} (); INSERT INTO odd{n} VALUES (1)"),
                _ => format!("CREATE TABLE odd{n} (c0 INT, c0 INT)"),
            });
        }
        match (self.rng.usize(5), existing) {
            (0, Some(t)) => {
                // duplicate table
                let mut d = self.model.tables[&t].0.clone();
                d.cols.truncate(1);
                d.pk = None;
                Stmt::CreateTable(d)
            }
            (1, Some(t)) => {
                // NULL into a NOT NULL column, if there is one
                let def = self.model.tables[&t].0.clone();
                let mut rows = self.gen_rows(&def, 2);
                if let Some(i) =
                    (0..def.cols.len()).find(|i| !def.cols[*i].nullable || def.pk == Some(*i))
                {
                    rows[1][i] = Val::Null;
                }
                Stmt::Insert {
                    table: t,
                    cols: vec![],
                    rows,
                }
            }
            (2, Some(t)) => Stmt::Insert {
                table: t,
                cols: vec!["nosuch".into()],
                rows: vec![vec![Val::Int(1)]],
            },
            (3, _) => Stmt::DropTable {
                name: "t_missing".into(),
            },
            _ => Stmt::Select(Query::star("t_missing")),
        }
    }

    /// Generate the next step and apply it to the generator's model.
    pub fn step(&mut self) -> Step {
        let p = self.prof.clone();
        if self.model.tables.is_empty() {
            let d = self.gen_table();
            let s = Stmt::CreateTable(d);
            self.model.apply(&s);
            return Step::Stmt(s);
        }
        if self.rng.chance(p.invalid_pct, 100) {
            return Step::Stmt(self.invalid_stmt());
        }
        let total = p.w_create
            + p.w_drop
            + p.w_view
            + p.w_index
            + p.w_function
            + p.w_insert
            + p.w_insert_select
            + p.w_delete
            + p.w_select
            + p.w_order_query
            + p.w_range_query
            + p.w_raw_query
            + p.w_advance
            + p.w_reopen;
        let mut x = self.rng.below(total);
        macro_rules! take {
            ($w:expr) => {{
                if x < $w {
                    true
                } else {
                    x -= $w;
                    false
                }
            }};
        }
        let table = self.pick_table().unwrap();
        let def = self.model.tables[&table].0.clone();
        let stmt = if take!(p.w_create) {
            if self.model.tables.len() >= p.max_tables {
                self.gen_insert(&table)
            } else {
                Stmt::CreateTable(self.gen_table())
            }
        } else if take!(p.w_drop) {
            if self.model.tables.len() <= 1 && self.rng.chance(2, 3) {
                self.gen_insert(&table)
            } else if !self.model.views.is_empty() && self.rng.chance(1, 3) {
                let v = self.model.views.keys().next().unwrap().clone();
                Stmt::DropTable { name: v }
            } else if self.prof.multi_drop && self.model.tables.len() >= 2 && self.rng.chance(1, 3) {
                // one statement, two tables
                let other = self.model.tables.keys().find(|n| **n != table).unwrap().clone();
                Stmt::DropTable { name: format!("{table}, {other}") }
            } else {
                Stmt::DropTable { name: table }
            }
        } else if take!(p.w_view) {
            self.next_obj += 1;
            Stmt::CreateView {
                name: format!("v{}", self.next_obj),
                of: table,
                cols: def.cols.iter().map(|c| c.name.clone()).collect(),
            }
        } else if take!(p.w_index) {
            self.next_obj += 1;
            let ci = self.rng.usize(def.cols.len());
            Stmt::CreateIndex {
                name: format!("i{}", self.next_obj),
                table,
                col: def.cols[ci].name.clone(),
            }
        } else if take!(p.w_function) {
            self.next_obj += 1;
            Stmt::CreateFunction {
                name: format!("f{}", self.next_obj),
            }
        } else if take!(p.w_insert) {
            self.gen_insert(&table)
        } else if take!(p.w_insert_select) {
            // same-schema source: the table itself (doubles the rows) with a predicate
            let pred = self.gen_pred(&def, true);
            Stmt::InsertSelect {
                table: table.clone(),
                from: table,
                pred,
            }
        } else if take!(p.w_delete) {
            let pred = self.gen_pred(&def, true);
            Stmt::Delete { table, pred }
        } else if take!(p.w_select) {
            let mut q = Query::star(&table);
            if self.rng.chance(1, 2) {
                q.pred = self.gen_pred(&def, false);
            }
            if self.rng.chance(1, 4) {
                q.count = true;
            } else {
                q.cols = self.gen_projection(&def);
            }
            Stmt::Select(q)
        } else if take!(p.w_order_query) {
            Stmt::Select(self.gen_order_query(&table))
        } else if take!(p.w_range_query) {
            // needs a table with a primary key
            let with_pk: Vec<String> = self
                .model
                .tables
                .iter()
                .filter(|(_, (d, _))| d.pk.is_some())
                .map(|(n, _)| n.clone())
                .collect();
            if with_pk.is_empty() {
                self.gen_insert(&table)
            } else {
                let t = with_pk[self.rng.usize(with_pk.len())].clone();
                let d = self.model.tables[&t].0.clone();
                let mut q = Query::star(&t);
                q.pred = self.gen_range_pred(&d);
                q.cols = self.gen_projection(&d);
                if self.prof.key_first_projection && !q.cols.is_empty() {
                    let k = d.cols[d.pk.unwrap()].name.clone();
                    q.cols.retain(|c| *c != k);
                    q.cols.insert(0, k);
                }
                Stmt::Select(q)
            }
        } else if take!(p.w_raw_query) {
            // (not the key: keys may sit at the ends of the INT range, where a sum overflows)
            let ints: Vec<String> = def
                .cols
                .iter()
                .enumerate()
                .filter(|(i, c)| c.ty == Ty::Int && Some(*i) != def.pk)
                .map(|(_, c)| c.name.clone())
                .collect();
            let any = def.cols[self.rng.usize(def.cols.len())].name.clone();
            let arm = self.rng.usize(9);
            if arm >= 5 {
                match self.gen_order_plan_query() {
                    Some(s) => s,
                    None => Stmt::Raw(format!("SELECT {any}, count(*) FROM {table} GROUP BY {any}")),
                }
            } else {
            match arm {
                0 => Stmt::Raw(format!("SELECT {any}, count(*) FROM {table} GROUP BY {any}")),
                1 => Stmt::Raw(format!("SELECT DISTINCT {any} FROM {table}")),
                2 => match ints.first() {
                    Some(c) => Stmt::Raw(format!(
                        "SELECT count(*), count({c}), sum({c}), min({c}), max({c}) FROM {table}"
                    )),
                    None => Stmt::Raw(format!("SELECT count(*), count({any}) FROM {table}")),
                },
                3 => match ints.first() {
                    Some(c) => Stmt::Raw(format!(
                        "SELECT {any}, sum({c}) FROM {table} WHERE {c} > 0 GROUP BY {any}"
                    )),
                    None => Stmt::Raw(format!("SELECT count(*) FROM {table} WHERE {any} IS NULL")),
                },
                _ => {
                    let t2 = self.pick_table().unwrap();
                    let d2 = self.model.tables[&t2].0.clone();
                    let i2: Vec<String> = d2
                        .cols
                        .iter()
                        .filter(|c| c.ty == Ty::Int)
                        .map(|c| c.name.clone())
                        .collect();
                    match (ints.first(), i2.last()) {
                        (Some(a), Some(b)) => Stmt::Raw(format!(
                            "SELECT x.{a}, y.{b} FROM {table} x JOIN {t2} y ON x.{a} = y.{b}"
                        )),
                        _ => Stmt::Raw(format!("SELECT count(*) FROM {table}")),
                    }
                }
            }
            }
        } else if take!(p.w_advance) {
            let ms = *self.rng.pick(&[1u64, 999, 1000, 1500, 2500, 60_000, 3_600_000]);
            return Step::Advance { ms };
        } else {
            return Step::Reopen;
        };
        if !matches!(self.model.expect(&stmt), Expect::Err(_)) {
            self.model.apply(&stmt);
        }
        Step::Stmt(stmt)
    }

    /// Statements under test for the fault engine (C15): they are applied to the generator's
    /// model so that later ones see the effect of earlier DML.
    pub fn fault_tests(&mut self) -> Vec<Stmt> {
        let mut out = vec![];
        let n = 4 + self.rng.usize(5);
        for _ in 0..n {
            let Some(t) = self.pick_table() else { break };
            let def = self.model.tables[&t].0.clone();
            // (not the key: keys may sit at the ends of the INT range, where a sum overflows)
            let ints: Vec<String> = def
                .cols
                .iter()
                .enumerate()
                .filter(|(i, c)| c.ty == Ty::Int && Some(*i) != def.pk)
                .map(|(_, c)| c.name.clone())
                .collect();
            // tables with an INT primary key (joins on them are planned as merge joins on disk)
            let pk_tables: Vec<(String, String)> = self
                .model
                .tables
                .iter()
                .filter_map(|(n, (d, _))| {
                    d.pk.filter(|i| d.cols[*i].ty == Ty::Int)
                        .map(|i| (n.clone(), d.cols[i].name.clone()))
                })
                .collect();
            let s = match self.rng.usize(15) {
                // semi / anti joins (hash or nested-loop semi join) between two tables
                11 | 12 if pk_tables.len() >= 2 => {
                    let i = self.rng.usize(pk_tables.len());
                    let mut j = self.rng.usize(pk_tables.len());
                    if j == i {
                        j = (j + 1) % pk_tables.len();
                    }
                    let ((ta, ka), (tb, kb)) = (pk_tables[i].clone(), pk_tables[j].clone());
                    let neg = if self.rng.chance(1, 3) { "NOT " } else { "" };
                    if self.rng.chance(1, 2) {
                        Stmt::Raw(format!("SELECT {ka} FROM {ta} WHERE {ka} {neg}IN (SELECT {kb} FROM {tb})"))
                    } else {
                        Stmt::Raw(format!(
                            "SELECT x.{ka} FROM {ta} x WHERE {neg}EXISTS (SELECT 1 FROM {tb} y WHERE y.{kb} = x.{ka})"
                        ))
                    }
                }
                // aggregation grouped by the primary key (sort aggregation on disk), DISTINCT,
                // aggregation under a top-n
                11 | 12 | 13 | 14 => match (pk_tables.iter().find(|(n, _)| *n == t), self.rng.usize(3)) {
                    (Some((_, k)), 0) => Stmt::Raw(format!("SELECT {k}, count(*) FROM {t} GROUP BY {k}")),
                    (_, 1) => {
                        let c = def.cols[self.rng.usize(def.cols.len())].name.clone();
                        Stmt::Raw(format!("SELECT DISTINCT {c} FROM {t}"))
                    }
                    // (no window functions: risinglight evaluates them as running aggregates in
                    // input order, so their results legitimately depend on the scan order)
                    _ => match ints.first() {
                        Some(c) => Stmt::Raw(format!(
                            "SELECT {c}, count(*), max({c}) FROM {t} WHERE {c} IS NOT NULL GROUP BY {c} ORDER BY {c} LIMIT 5"
                        )),
                        None => Stmt::Raw(format!("SELECT count(*) FROM {t}")),
                    },
                },
                9 | 10 if pk_tables.len() >= 2 => {
                    let i = self.rng.usize(pk_tables.len());
                    let mut j = self.rng.usize(pk_tables.len());
                    if j == i {
                        j = (j + 1) % pk_tables.len();
                    }
                    let ((ta, ka), (tb, kb)) = (pk_tables[i].clone(), pk_tables[j].clone());
                    let kind = *self.rng.pick(&["JOIN", "LEFT JOIN", "RIGHT JOIN", "FULL JOIN"]);
                    Stmt::Raw(format!(
                        "SELECT x.{ka}, y.{kb} FROM {ta} x {kind} {tb} y ON x.{ka} = y.{kb}"
                    ))
                }
                9 | 10 => Stmt::Select(self.gen_order_query(&t)),
                0 => {
                    let mut q = Query::star(&t);
                    q.pred = self.gen_pred(&def, true);
                    q.cols = self.gen_projection(&def);
                    Stmt::Select(q)
                }
                1 => {
                    let c = def.cols[self.rng.usize(def.cols.len())].name.clone();
                    Stmt::Raw(format!("SELECT {c}, count(*) FROM {t} GROUP BY {c}"))
                }
                2 => match ints.first() {
                    Some(c) => Stmt::Raw(format!("SELECT count(*), sum({c}), min({c}) FROM {t}")),
                    None => Stmt::Raw(format!("SELECT count(*) FROM {t}")),
                },
                3 => Stmt::Select(self.gen_order_query(&t)),
                4 => {
                    // two-table join on INT columns. No self-joins: two scans of the same file
                    // coalesce their block loads in the cache depending on real timing, which
                    // would make the statement's syscall sequence differ between replays.
                    let t2 = self.pick_table().unwrap();
                    let t2 = if t2 == t {
                        self.model
                            .tables
                            .keys()
                            .find(|n| **n != t)
                            .cloned()
                            .unwrap_or(t2)
                    } else {
                        t2
                    };
                    let def2 = self.model.tables[&t2].0.clone();
                    let ints2: Vec<String> = def2
                        .cols
                        .iter()
                        .filter(|c| c.ty == Ty::Int)
                        .map(|c| c.name.clone())
                        .collect();
                    match (ints.first(), ints2.last()) {
                        (Some(a), Some(b)) if t2 != t => Stmt::Raw(format!(
                            "SELECT x.{a}, y.{b} FROM {t} x JOIN {t2} y ON x.{a} = y.{b}"
                        )),
                        _ => Stmt::Select(Query::star(&t)),
                    }
                }
                5 | 6 => {
                    let pred = self.gen_pred(&def, true);
                    Stmt::InsertSelect {
                        table: t.clone(),
                        from: t.clone(),
                        pred,
                    }
                }
                7 => self.gen_insert(&t),
                _ => {
                    let pred = self.gen_pred(&def, true);
                    Stmt::Delete { table: t.clone(), pred }
                }
            };
            if !matches!(self.model.expect(&s), Expect::Err(_)) {
                self.model.apply(&s);
            }
            out.push(s);
        }
        out
    }

    /// Directed history for plans that depend on the storage order: two or three tables with
    /// primary keys of one type and overlapping key sets, filled by several inserts (several
    /// row-sets), then a batch of joins / aggregations / subqueries on the keys.
    pub fn join_scenario(&mut self) -> Vec<Step> {
        let mut steps = vec![];
        let mut apply = |g: &mut Self, s: Stmt, steps: &mut Vec<Step>| {
            if !matches!(g.model.expect(&s), Expect::Err(_)) {
                g.model.apply(&s);
            }
            steps.push(Step::Stmt(s));
        };
        self.prof.pk_pct = 100;
        self.prof.same_key_type_pct = 100;
        self.prof.borrow_key_pct = 45;
        // a third of the scenarios: integer keys of different widths (INT = BIGINT joins)
        if self.rng.chance(1, 3) {
            self.prof.same_key_type_pct = 0;
            self.prof.pk_types = vec![Ty::Int, Ty::BigInt, Ty::SmallInt];
        }
        let nt = 2 + self.rng.usize(2);
        let mut names = vec![];
        for _ in 0..nt {
            let d = self.gen_table();
            names.push(d.name.clone());
            apply(self, Stmt::CreateTable(d), &mut steps);
        }
        for round in 0..(2 + self.rng.usize(3)) {
            for n in names.clone() {
                if round > 0 && self.rng.chance(1, 3) {
                    continue;
                }
                let s = self.gen_insert(&n);
                apply(self, s, &mut steps);
            }
            if self.rng.chance(1, 3) {
                let n = names[self.rng.usize(names.len())].clone();
                let def = self.model.tables[&n].0.clone();
                let pred = self.gen_pred(&def, false);
                apply(self, Stmt::Delete { table: n, pred }, &mut steps);
            }
            if self.rng.chance(1, 4) {
                steps.push(Step::Advance { ms: 1500 });
            }
        }
        for _ in 0..(8 + self.rng.usize(8)) {
            if let Some(q) = self.gen_order_plan_query() {
                steps.push(Step::Stmt(q));
            }
            if self.rng.chance(1, 6) {
                let n = names[self.rng.usize(names.len())].clone();
                let s = self.gen_insert(&n);
                apply(self, s, &mut steps);
            }
        }
        steps
    }

    /// Directed history with a big table: a few dozen rows doubled by INSERT .. SELECT until a
    /// single statement writes more than a thousand rows into one row-set, then broad deletes
    /// (long delete vectors), reopen cycles and further statements.
    pub fn bulk_scenario(&mut self) -> Vec<Step> {
        let mut steps = vec![];
        let apply = |g: &mut Self, s: Stmt, steps: &mut Vec<Step>| {
            if !matches!(g.model.expect(&s), Expect::Err(_)) {
                g.model.apply(&s);
            }
            steps.push(Step::Stmt(s));
        };
        let d = self.gen_table();
        let t = d.name.clone();
        apply(self, Stmt::CreateTable(d.clone()), &mut steps);
        self.prof.max_rows_per_insert = 40;
        for _ in 0..2 {
            let s = self.gen_insert(&t);
            apply(self, s, &mut steps);
        }
        let doublings = 5 + self.rng.usize(3);
        for i in 0..doublings {
            let s = Stmt::InsertSelect { table: t.clone(), from: t.clone(), pred: Pred::default() };
            apply(self, s, &mut steps);
            if i + 2 == doublings && self.rng.chance(1, 2) {
                steps.push(Step::Advance { ms: 1500 });
            }
        }
        for round in 0..2 {
            let pred = if self.rng.chance(1, 3) { Pred::default() } else { self.gen_pred(&d, true) };
            apply(self, Stmt::Delete { table: t.clone(), pred }, &mut steps);
            if self.rng.chance(1, 2) {
                steps.push(Step::Advance { ms: 1500 });
            }
            steps.push(Step::Reopen);
            let s = self.gen_insert(&t);
            apply(self, s, &mut steps);
            if round == 0 && self.rng.chance(1, 2) {
                let s = Stmt::InsertSelect { table: t.clone(), from: t.clone(), pred: Pred::default() };
                apply(self, s, &mut steps);
            }
        }
        steps.push(Step::Reopen);
        steps
    }

    /// One table of more than a thousand rows (more than one processing window of the
    /// executors, many blocks), then ORDER BY / LIMIT / OFFSET queries (or key-range queries)
    /// whose cut points lie anywhere in it.
    pub fn big_scenario(&mut self, range: bool) -> Vec<Step> {
        let mut steps = vec![];
        let apply = |g: &mut Self, s: Stmt, steps: &mut Vec<Step>| {
            if !matches!(g.model.expect(&s), Expect::Err(_)) {
                g.model.apply(&s);
            }
            steps.push(Step::Stmt(s));
        };
        let mut d = self.gen_table();
        if range && d.pk.is_none() {
            d.pk = Some(0);
            d.cols[0].nullable = false;
        }
        let t = d.name.clone();
        apply(self, Stmt::CreateTable(d.clone()), &mut steps);
        self.prof.max_rows_per_insert = 40;
        for _ in 0..3 {
            let s = self.gen_insert(&t);
            apply(self, s, &mut steps);
        }
        let mut n = 0;
        while self.model.tables[&t].1.len() < 1100 && n < 10 {
            let s = Stmt::InsertSelect { table: t.clone(), from: t.clone(), pred: Pred::default() };
            apply(self, s, &mut steps);
            n += 1;
        }
        if self.rng.chance(1, 2) {
            steps.push(Step::Advance { ms: 1500 });
        }
        for _ in 0..(6 + self.rng.usize(6)) {
            let q = if range {
                let mut q = Query::star(&t);
                q.pred = self.gen_range_pred(&d);
                q.cols = self.gen_projection(&d);
                q
            } else {
                self.gen_order_query(&t)
            };
            steps.push(Step::Stmt(Stmt::Select(q)));
            if self.rng.chance(1, 5) {
                let s = self.gen_insert(&t);
                apply(self, s, &mut steps);
            }
            if self.rng.chance(1, 8) {
                let pred = self.gen_pred(&d, true);
                apply(self, Stmt::Delete { table: t.clone(), pred }, &mut steps);
            }
        }
        steps
    }

    pub fn history(&mut self) -> Vec<Step> {
        let n = 3 + self.rng.usize(self.prof.max_steps.saturating_sub(2).max(1));
        (0..n).map(|_| self.step()).collect()
    }
}
