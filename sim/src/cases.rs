//! Case generation per property: one seed -> one fully explicit case.

use crate::case::*;
use crate::genr::*;
use crate::model::*;
use crate::rng::Rng;
use crate::world::Knobs;

/// Swarm switches that steer most runs away from the triggers of known findings, so that the
/// rest of the property keeps being explored. `avoid` is false in a share of the runs.
#[derive(Clone, Copy, Debug)]
pub struct Avoid {
    pub on: bool,
}

pub fn gen_case(prop: &str, seed: u64) -> Case {
    let mut master = Rng::new(seed ^ 0x5EED_CA5E);
    let mut krng = master.fork(11);
    let mut wrng = master.fork(12);
    let mut arng = master.fork(13);
    let avoid = Avoid {
        on: !arng.chance(1, 20),
    };
    let mut knobs = Knobs::draw(&mut krng);
    let mut case = Case {
        prop: prop.to_string(),
        seed,
        ..Default::default()
    };
    match prop {
        "C03" => {
            let mut p = Profile::base();
            p.max_steps = 22;
            p.w_create = 8;
            p.w_drop = 5;
            p.pk_constraint_pct = 20;
            p.unicode_names_pct = 15;
            p.invalid_pct = 6;
            p.odd_ddl = true;
            p.multi_drop = true;
            p.w_view = if avoid.on { 0 } else { 3 };
            p.w_index = if avoid.on { 0 } else { 2 };
            p.w_function = 2;
            p.w_reopen = 8;
            p.w_select = 3;
            p.w_advance = 8;
            // a fifth of the runs works with many tables (two-digit table ids, long manifests)
            if krng.chance(1, 5) {
                p.max_tables = 16;
                p.max_steps = 80;
                p.w_create = 30;
                p.w_drop = 10;
                p.w_insert = 26;
                p.w_delete = 18;
                p.w_advance = 3;
                p.w_reopen = 4;
                p.max_rows_per_insert = 4;
            }
            let bulk = krng.chance(1, 10);
            if bulk {
                // thousands of rows: not one row-set per row (every row-set keeps 2 files per
                // column open; the process would run into its file-descriptor limit)
                knobs.rowset_size = knobs.rowset_size.max(*krng.pick(&[65536usize, 1 << 20, 256 << 20]));
            }
            let mut g = Gen::new(&mut wrng, p);
            let mut steps = if bulk { g.bulk_scenario() } else { g.history() };
            // always end with a reopen followed by statements the reopened database must accept
            steps.push(Step::Reopen);
            let names: Vec<String> = g.model.tables.keys().cloned().collect();
            for n in names {
                let s = g.gen_insert(&n);
                g.model.apply(&s);
                steps.push(Step::Stmt(s));
                let def = g.model.tables[&n].0.clone();
                let pred = g.gen_pred(&def, false);
                let s = Stmt::Delete { table: n, pred };
                g.model.apply(&s);
                steps.push(Step::Stmt(s));
            }
            let d = g.gen_table();
            g.model.apply(&Stmt::CreateTable(d.clone()));
            steps.push(Step::Stmt(Stmt::CreateTable(d.clone())));
            let s = g.gen_insert(&d.name);
            steps.push(Step::Stmt(s));
            steps.push(Step::Reopen);
            case.steps = steps;
        }
        "C05" => {
            let mut p = Profile::base();
            p.max_steps = 26;
            p.w_select = 22;
            p.w_order_query = 6;
            p.w_range_query = 6;
            p.w_raw_query = 12;
            // many row-sets in few tables in part of the runs
            p.max_tables = 1 + krng.usize(3);
            if p.max_tables == 1 {
                p.max_steps = 38;
                p.w_order_query = 18;
                p.w_insert = 45;
                p.w_delete = 8;
                p.pk_pct = 85;
            } else {
                p.pk_pct = 70;
                p.w_raw_query = 18;
                p.w_create = 10;
            }
            p.w_reopen = 2;
            p.dup_key_pct = *krng.pick(&[8u64, 8, 30, 50]);
            p.borrow_key_pct = *krng.pick(&[0u64, 20, 40]);
            p.same_key_type_pct = 60;
            p.pk_constraint_pct = 12;
            p.unicode_names_pct = 8;
            p.invalid_pct = 8;
            p.pk_first_only = false;
            p.key_first_projection = false;
            p.pk_types = vec![Ty::Int, Ty::Int, Ty::Int, Ty::BigInt, Ty::Varchar, Ty::SmallInt, Ty::Date, Ty::Decimal];
            let directed = krng.chance(1, 5);
            let mut g = Gen::new(&mut wrng, p);
            case.steps = if directed { g.join_scenario() } else { g.history() };
        }
        "C07" => {
            let mut p = Profile::base();
            p.max_steps = 26;
            p.w_delete = 24;
            p.w_insert = 30;
            p.w_advance = 18;
            p.w_reopen = 4;
            p.w_select = 2;
            p.w_create = 3;
            p.w_drop = 1;
            p.low_card_pct = 30;
            if krng.chance(1, 2) {
                knobs.rowset_size = *krng.pick(&[64usize, 128, 256, 1024]);
            }
            p.pk_first_only = false;
            let bulk = krng.chance(1, 12);
            if bulk {
                knobs.rowset_size = knobs.rowset_size.max(*krng.pick(&[65536usize, 1 << 20, 256 << 20]));
            }
            let mut g = Gen::new(&mut wrng, p);
            case.steps = if bulk { g.bulk_scenario() } else { g.history() };
        }
        "C12" => {
            let mut p = Profile::base();
            p.max_steps = 26;
            p.w_order_query = 30;
            p.w_select = 0;
            p.w_insert = 30;
            p.w_delete = 10;
            p.w_advance = 8;
            p.w_reopen = 3;
            p.w_drop = 0;
            p.pk_pct = 60;
            p.pk_types = vec![Ty::Int, Ty::Int, Ty::Int, Ty::BigInt, Ty::Varchar, Ty::SmallInt, Ty::Date, Ty::Decimal];
            p.pk_first_only = false;
            p.max_tables = 1 + krng.usize(3);
            if p.max_tables == 1 {
                p.max_steps = 34;
            }
            if krng.chance(2, 3) {
                knobs.rowset_size = *krng.pick(&[1usize, 64, 128, 256, 1024, 4096]);
            }
            let big = krng.chance(1, 12);
            if big {
                knobs.rowset_size = knobs.rowset_size.max(*krng.pick(&[65536usize, 1 << 20, 256 << 20]));
            }
            let mut g = Gen::new(&mut wrng, p);
            case.steps = if big { g.big_scenario(false) } else { g.history() };
            case.params.insert("avoid".into(), avoid.on as i64);
        }
        "C13" => {
            let mut p = Profile::base();
            p.max_steps = 26;
            p.w_range_query = 32;
            p.w_select = 0;
            p.w_insert = 30;
            p.w_delete = 10;
            p.w_advance = 8;
            p.w_reopen = 3;
            p.w_drop = 0;
            p.pk_pct = 95;
            p.pk_types = vec![Ty::Int, Ty::Int, Ty::Int, Ty::BigInt, Ty::Varchar, Ty::Double, Ty::SmallInt, Ty::Date, Ty::Decimal];
            p.pk_first_only = false;
            p.key_first_projection = false;
            if krng.chance(2, 3) {
                knobs.block_size = *krng.pick(&[32usize, 64, 128]);
            }
            if krng.chance(1, 2) {
                knobs.rowset_size = *krng.pick(&[128usize, 256, 1024, 4096]);
            }
            let big = krng.chance(1, 12);
            if big {
                knobs.rowset_size = knobs.rowset_size.max(*krng.pick(&[65536usize, 1 << 20, 256 << 20]));
            }
            let mut g = Gen::new(&mut wrng, p);
            case.steps = if big { g.big_scenario(true) } else { g.history() };
        }
        "C04" => {
            let mut p = Profile::base();
            p.max_steps = 7;
            case.params.insert("avoid".into(), avoid.on as i64);
            p.unicode_names_pct = 30;
            p.multi_drop = true;
            p.w_create = 8;
            p.w_drop = 4;
            p.w_insert = 30;
            p.w_delete = 16;
            p.w_insert_select = 2;
            p.w_select = 0;
            p.w_advance = 14;
            p.w_reopen = 5;
            p.max_rows_per_insert = 12;
            if krng.chance(1, 3) {
                knobs.rowset_size = *krng.pick(&[64usize, 128, 256]);
            }
            // some longer histories: the manifest grows past a page boundary or two
            if krng.chance(1, 8) {
                p.max_steps = 36;
                p.max_tables = 6;
                p.w_create = 12;
                p.max_rows_per_insert = 3;
                p.w_advance = 4;
            }
            let mut g = Gen::new(&mut wrng, p);
            case.steps = g.history();
        }
        "C18" => {
            let mut p = Profile::base();
            p.max_steps = 9;
            p.max_tables = 2;
            p.w_create = 6;
            p.w_drop = 0;
            p.w_insert = 40;
            p.w_delete = 10;
            p.w_insert_select = 2;
            p.w_select = 0;
            p.w_advance = 8;
            p.max_rows_per_insert = 30;
            knobs.checksum = 1;
            let mut g = Gen::new(&mut wrng, p);
            case.steps = g.history();
            case.params.insert("avoid".into(), avoid.on as i64);
        }
        "C15" => {
            let mut p = Profile::base();
            p.max_steps = 10;
            p.max_tables = 3;
            p.w_create = 10;
            p.w_drop = 0;
            p.w_insert = 40;
            p.w_delete = 6;
            p.w_insert_select = 2;
            p.w_select = 0;
            p.w_advance = 4;
            p.max_rows_per_insert = 30;
            p.low_card_pct = 15;
            p.pk_pct = 70;
            if krng.chance(2, 3) {
                knobs.rowset_size = *krng.pick(&[128usize, 256, 1024, 4096]);
            }
            if krng.chance(1, 2) {
                knobs.block_size = *krng.pick(&[32usize, 64, 128, 256]);
            }
            let mut g = Gen::new(&mut wrng, p);
            case.steps = g.history();
            let tests = g.fault_tests();
            case.sessions = vec![tests];
            case.params.insert("avoid".into(), avoid.on as i64);
        }
        "C08" | "C09" | "C10" => gen_sched(prop, &mut case, &mut wrng, &mut krng, &mut knobs, avoid),
        _ => {}
    }
    // C15: one run in forty is the COPY FROM scenario (real blocking pool, see run.rs)
    if prop == "C15" && krng.chance(1, 40) {
        case.params.insert("copy_scenario".into(), 1);
    }
    if std::env::var("RLSIM_TIER").as_deref() == Ok("thorough") {
        match prop {
            // every crash index, every byte of manifest writes
            "C04" => {
                case.params.insert("all_points".into(), 1);
            }
            // every bit of the last 24 bytes of every file, more positions per file
            "C18" => {
                case.params.insert("all_trailer_bytes".into(), 1);
                case.params.insert("per_file".into(), 16);
            }
            // every (operator, item, kind), more I/O faults per statement
            "C15" => {
                case.params.insert("max_op_faults_per_stmt".into(), 400);
                case.params.insert("max_io_faults_per_stmt".into(), 40);
            }
            "C08" | "C09" | "C10" => {
                case.params.insert("max_decisions".into(), 800);
            }
            _ => {}
        }
    }
    // (C13 / C05: the store is written without first keys and reopened with them, and back)
    if matches!(prop, "C13" | "C05") && krng.chance(1, 10) {
        knobs.record_first_key = false;
        case.params.insert("flip_first_key".into(), 1);
    }
    case.knobs = Some(knobs);
    case
}


fn simple_table(name: &str, pk: bool) -> TableDef {
    TableDef {
        name: name.to_string(),
        cols: vec![
            Col {
                name: "c0".into(),
                ty: Ty::Int,
                nullable: !pk,
            },
            Col {
                name: "c1".into(),
                ty: Ty::Int,
                nullable: true,
            },
        ],
        pk: if pk { Some(0) } else { None },
        pk_constraint: false,
    }
}

fn fresh_rows(rng: &mut Rng, next: &mut i64, n: usize) -> Vec<Row> {
    (0..n)
        .map(|_| {
            *next += 1;
            vec![
                Val::Int(*next),
                if rng.chance(1, 6) {
                    Val::Null
                } else {
                    Val::Int(rng.range(0, 3))
                },
            ]
        })
        .collect()
}

fn del_pred(rng: &mut Rng, max_id: i64) -> Pred {
    match rng.usize(4) {
        0 => Pred(vec![Atom::Cmp {
            col: "c1".into(),
            op: Cmp::Eq,
            val: Val::Int(rng.range(0, 3)),
        }]),
        1 => Pred(vec![Atom::Cmp {
            col: "c0".into(),
            op: *rng.pick(&[Cmp::Lt, Cmp::Le]),
            val: Val::Int(rng.range(1, max_id.max(2))),
        }]),
        2 => Pred(vec![Atom::Cmp {
            col: "c0".into(),
            op: *rng.pick(&[Cmp::Gt, Cmp::Ge]),
            val: Val::Int(rng.range(1, max_id.max(2))),
        }]),
        _ => Pred(vec![
            Atom::Cmp {
                col: "c0".into(),
                op: Cmp::Ge,
                val: Val::Int(rng.range(1, max_id.max(2))),
            },
            Atom::Cmp {
                col: "c1".into(),
                op: Cmp::Ne,
                val: Val::Int(rng.range(0, 3)),
            },
        ]),
    }
}

/// Cases of the scheduler engine: setup statements, concurrent sessions, readers, gate sites.
fn gen_sched(prop: &str, case: &mut Case, w: &mut Rng, k: &mut Rng, knobs: &mut Knobs, avoid: Avoid) {
    use crate::sched::REPO_SITES;
    let mut next = 0i64;
    let ntables = if prop == "C10" { 1 + w.usize(2) } else { 2 + w.usize(2) };
    let names: Vec<String> = (0..ntables).map(|i| format!("t{i}")).collect();
    // ---- setup: tables with several row-sets
    for n in &names {
        let pk = w.chance(1, 2);
        if prop == "C10" && w.chance(1, 3) {
            continue; // created by a session instead
        }
        case.setup.push(Stmt::CreateTable(simple_table(n, pk)));
        for _ in 0..(1 + w.usize(4)) {
            let cnt = 1 + w.usize(6);
            case.setup.push(Stmt::Insert {
                table: n.clone(),
                cols: vec![],
                rows: fresh_rows(w, &mut next, cnt),
            });
        }
        if w.chance(1, 3) {
            case.setup.push(Stmt::Delete {
                table: n.clone(),
                pred: del_pred(w, next),
            });
        }
    }
    if w.chance(1, 3) {
        case.params.insert("setup_advance_ms".into(), 1500);
    }
    // ---- sessions
    let nsess = 2 + w.usize(2);
    let budget = if prop == "C10" { 4 } else { 3 };
    let mut insert_select_used = false;
    for _ in 0..nsess {
        let mut st = vec![];
        for _ in 0..(1 + w.usize(budget)) {
            let t = names[w.usize(names.len())].clone();
            let x = w.usize(100);
            let s = match prop {
                "C10" => {
                    if x < 12 {
                        Stmt::CreateTable(simple_table(&t, w.chance(1, 2)))
                    } else if x < 22 {
                        Stmt::DropTable { name: t }
                    } else if x < 50 {
                        let cnt = 1 + w.usize(4);
                        Stmt::Insert {
                            table: t,
                            cols: vec![],
                            rows: fresh_rows(w, &mut next, cnt),
                        }
                    } else if x < 55 {
                        // an INSERT of several chunks (one per row-set of its source): with a
                        // small row-set size it writes several row-sets, which must become
                        // visible together. At most one per run and from another table: every
                        // row of a table stays unique, so that the checker can tell which row
                        // an overlapping DELETE removed.
                        let others: Vec<&String> = names.iter().filter(|n| **n != t).collect();
                        if insert_select_used || others.is_empty() {
                            let cnt = 1 + w.usize(4);
                            Stmt::Insert { table: t, cols: vec![], rows: fresh_rows(w, &mut next, cnt) }
                        } else {
                            insert_select_used = true;
                            let from = others[w.usize(others.len())].clone();
                            Stmt::InsertSelect { table: t, from, pred: Pred::default() }
                        }
                    } else if x < 80 {
                        Stmt::Delete {
                            table: t,
                            pred: del_pred(w, next),
                        }
                    } else {
                        // count(*), or a query whose plan needs the column types of the table
                        // (sort, projection): binding and building are separate steps, the
                        // table can be dropped in between
                        if w.chance(1, 5) {
                            // two scans of one table in one statement: whatever runs alongside,
                            // they have to see the same rows (always 0, NULLs or not)
                            st.push(Stmt::Raw(format!(
                                "SELECT count(*) FROM {t} WHERE c0 NOT IN (SELECT c0 FROM {t})"
                            )));
                            continue;
                        }
                        let mut q = Query::star(&t);
                        match w.usize(3) {
                            0 => q.count = true,
                            1 => {
                                q.order = vec![OrderKey { col: "c0".into(), desc: w.chance(1, 2) }];
                            }
                            _ => {
                                q.cols = vec!["c1".into()];
                                q.order = vec![OrderKey { col: "c1".into(), desc: false }];
                            }
                        }
                        Stmt::Select(q)
                    }
                }
                "C08" => {
                    if x < 42 {
                        let cnt = 1 + w.usize(5);
                        Stmt::Insert {
                            table: t,
                            cols: vec![],
                            rows: fresh_rows(w, &mut next, cnt),
                        }
                    } else if x < 76 {
                        Stmt::Delete {
                            table: t,
                            pred: del_pred(w, next),
                        }
                    } else if x < 84 {
                        Stmt::DropTable { name: t }
                    } else {
                        // a reader at SQL level: the whole statement is one scan
                        Stmt::Select(Query::star(&t))
                    }
                }
                _ => {
                    if x < 50 {
                        let cnt = 1 + w.usize(5);
                        Stmt::Insert {
                            table: t,
                            cols: vec![],
                            rows: fresh_rows(w, &mut next, cnt),
                        }
                    } else {
                        Stmt::Delete {
                            table: t,
                            pred: del_pred(w, next),
                        }
                    }
                }
            };
            st.push(s);
        }
        case.sessions.push(st);
    }
    if prop == "C08" {
        case.params.insert("readers".into(), 1 + w.usize(2) as i64);
        case.params.insert("reader_table".into(), w.usize(4) as i64);
        case.params.insert("reader_batch".into(), *w.pick(&[0i64, 1, 2, 5]));
        case.params.insert("reader_sorted".into(), w.usize(2) as i64);
    }
    // ---- gate density (swarm): which repo sites park in this run
    let density = *k.pick(&[0u64, 15, 35, 60, 100]);
    let family: &[&str] = match prop {
        "C08" => &["txn.", "vm.", "vacuum.", "compactor.", "ddl."],
        "C09" => &["txn.", "vm.", "compactor.", "vacuum."],
        _ => &["db.", "txn.", "vm.", "ddl.", "compactor."],
    };
    for s in REPO_SITES {
        if family.iter().any(|f| s.starts_with(f)) && k.chance(density, 100) {
            case.sites.push(s.to_string());
        }
    }
    // the compactor only matters if it has several row-sets to merge
    if k.chance(1, 2) {
        knobs.rowset_size = *k.pick(&[256usize, 1024, 4096, 1 << 20]);
    }
    case.params.insert("avoid".into(), avoid.on as i64);
    // in part of the runs two parked actors are sometimes released in one step
    case.params.insert("pair_pct".into(), *w.pick(&[0i64, 0, 15, 30]));
}
