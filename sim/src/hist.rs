//! `hist`: single-session histories over DDL / DML / queries interleaved with simulated time
//! (compaction + vacuum passes) and clean shutdown + reopen. Serves C03, C05, C07, C12, C13.

use std::time::Duration;

use crate::case::*;
use crate::genr::Step;
use crate::model::*;
use crate::run::Ctx;
use crate::world::*;

fn attr_rows(rows: &[Row], tables: &[String]) -> Vec<Row> {
    // pg_attribute: (schema_name, table_name, column_id, column_name, column_type, not_null)
    let mut out: Vec<Row> = rows
        .iter()
        .filter(|r| {
            matches!(&r[0], Val::Str(s) if s == "postgres")
                && matches!(&r[1], Val::Str(t) if tables.contains(t))
        })
        .cloned()
        .collect();
    out.sort();
    out
}

fn type_name(ty: Ty) -> &'static str {
    match ty {
        Ty::Int => "int",
        Ty::BigInt => "bigint",
        Ty::Varchar => "string",
        Ty::Bool => "bool",
        Ty::Double => "double",
        Ty::SmallInt => "smallint",
        Ty::Decimal => "decimal(10,2)",
        Ty::Date => "date",
    }
}

/// Rows of pg_attribute the model expects for its tables.
fn model_attr_rows(m: &Model) -> Vec<Row> {
    let mut out = vec![];
    for (name, (def, _)) in &m.tables {
        for (i, c) in def.cols.iter().enumerate() {
            out.push(vec![
                Val::Str("postgres".into()),
                Val::Str(name.clone()),
                Val::Int(i as i64),
                Val::Str(c.name.clone()),
                Val::Str(type_name(c.ty).into()),
                Val::Bool(!c.nullable || def.pk == Some(i)),
            ]);
        }
    }
    out.sort();
    out
}

struct Snapshot {
    tables: Vec<(String, Option<Vec<Row>>)>,
    attrs: Option<Vec<Row>>,
    /// What the definition *does*: key-predicate and key-ordered queries per table with a key
    /// (sql, result, compare as a sequence?)
    probes: Vec<(String, Option<Vec<Row>>, bool)>,
}

async fn snapshot(db: &Db, model: &Model) -> Snapshot {
    let names: Vec<String> = model.tables.keys().cloned().collect();
    let mut tables = vec![];
    for n in &names {
        let o = db.exec(&format!("SELECT * FROM {n}")).await;
        tables.push((n.clone(), o.rows().cloned()));
    }
    let attrs = db
        .exec("SELECT * FROM pg_catalog.pg_attribute")
        .await
        .rows()
        .map(|r| attr_rows(r, &names));
    let mut probes = vec![];
    for (n, (def, rows)) in &model.tables {
        let Some(pk) = def.pk else { continue };
        if rows.is_empty() {
            continue;
        }
        let k = &def.cols[pk].name;
        let mut keys: Vec<&Val> = rows.iter().map(|r| &r[pk]).collect();
        keys.sort();
        let mid = keys[keys.len() / 2].sql();
        for (sql, seq) in [
            (format!("SELECT * FROM {n} WHERE {k} <= {mid}"), false),
            (format!("SELECT * FROM {n} WHERE {k} > {mid}"), false),
            (format!("SELECT {k} FROM {n} ORDER BY {k}"), true),
        ] {
            let r = db.exec(&sql).await.rows().cloned();
            probes.push((sql, r, seq));
        }
    }
    Snapshot { tables, attrs, probes }
}

/// Is `rows` sorted by `keys` (col index, desc) when NULLs are placed `nulls_first` (in the
/// ascending direction)? Ties are free.
fn sorted_by(rows: &[Row], keys: &[(usize, bool)], nulls_low: bool) -> bool {
    let cmp = |a: &Row, b: &Row| {
        for (i, desc) in keys {
            let o = match (a[*i].is_null(), b[*i].is_null()) {
                (true, true) => std::cmp::Ordering::Equal,
                (true, false) => {
                    if nulls_low {
                        std::cmp::Ordering::Less
                    } else {
                        std::cmp::Ordering::Greater
                    }
                }
                (false, true) => {
                    if nulls_low {
                        std::cmp::Ordering::Greater
                    } else {
                        std::cmp::Ordering::Less
                    }
                }
                _ => cmp_num(&a[*i], &b[*i]),
            };
            let o = if *desc { o.reverse() } else { o };
            if o != std::cmp::Ordering::Equal {
                return o;
            }
        }
        std::cmp::Ordering::Equal
    };
    rows.windows(2)
        .all(|w| cmp(&w[0], &w[1]) != std::cmp::Ordering::Greater)
}

fn key_proj(rows: &[Row], keys: &[(usize, bool)]) -> Vec<Row> {
    rows.iter()
        .map(|r| keys.iter().map(|(i, _)| r[*i].clone()).collect())
        .collect()
}

pub async fn run(cx: &mut Ctx) {
    let prop = cx.case.prop.clone();
    let p = prop.as_str();
    let mut knobs = cx.case.knobs();
    let steps = cx.case.steps.clone();
    let root = cx.root.clone();
    let t0 = tokio::time::Instant::now();

    let mut db = match Db::open(knobs.options(&root)).await {
        Ok(d) => d,
        Err(e) => {
            cx.harness_error = Some(format!("initial open failed: {e}"));
            return;
        }
    };
    cx.log.push("open".into());
    cx.log.absorb_journal();
    let mem = if p == "C05" { Some(Db::memory()) } else { None };
    let mut model = Model::default();
    let mut reopened = false;
    // NULL placement seen in ordered results (C12): None = not yet determined
    let mut nulls_low: Option<bool> = None;
    let mut max_rowsets = 0usize;
    let mut compactions = 0u64;
    let mut reopen_count = 0u64;
    let mut nontrivial = false;

    for (i, step) in steps.iter().enumerate() {
        cx.log.push(format!("[{i}] {}", step.brief()));
        match step {
            Step::Stmt(s) => {
                cx.stats.statements += 1;
                let sql = s.sql();
                let expect = model.expect(s);
                let layout_before = layout(&root);
                let out = db.exec(&sql).await;
                quiesce().await;
                cx.log.push(format!("    => {}", out.brief()));
                if std::env::var_os("RLSIM_DEBUG_ROWS").is_some() {
                    if let Outcome::Ok(rows) = &out {
                        for r in rows.iter().take(40) {
                            for l in row_brief(r).lines() {
                                cx.log.push(format!("       | {l}"));
                            }
                        }
                    }
                    use std::hash::{BuildHasher, Hasher};
                    let rs = std::collections::hash_map::RandomState::new();
                    let mut h = rs.build_hasher();
                    h.write_u64(42);
                    cx.log.push(format!("       k0-fingerprint {:016x}", h.finish()));
                }
                cx.log.absorb_journal();
                if let Outcome::Panic(m) = &out {
                    cx.probe("statement-panicked");
                    cx.log.push(format!("    panic: {m}"));
                }

                // ---- C05: twin comparison
                if let Some(mem) = &mem {
                    // reach: which storage-order-dependent operators the on-disk plan uses
                    if let (Stmt::Raw(_) | Stmt::RawOrdered { .. }, true, 0) = (s, out.is_ok(), i % 3) {
                        if let Outcome::Ok(rows) = db.exec(&format!("EXPLAIN {sql}")).await {
                            let plan = format!("{rows:?}");
                            for (needle, probe) in [
                                ("MergeJoin", "plan-merge-join"),
                                ("SortAgg", "plan-sort-agg"),
                                ("HashJoin", "plan-hash-join"),
                            ] {
                                if plan.contains(needle) {
                                    cx.probe(probe);
                                }
                            }
                        }
                    }
                    let mo = mem.exec(&sql).await;
                    cx.log.push(format!("    mem => {}", mo.brief()));
                    cx.stats.evaluations += 1;
                    match (&out, &mo) {
                        (Outcome::Ok(a), Outcome::Ok(b)) => {
                            let diff = match s {
                                Stmt::Select(q) if !q.order.is_empty() => {
                                    // sequence on the ORDER BY keys (positions in the output)
                                    let (def, _) = &model.tables[&q.table];
                                    let outcols: Vec<String> = if let Some(g) = &q.group_by {
                                        vec![g.clone()]
                                    } else if q.cols.is_empty() {
                                        def.cols.iter().map(|c| c.name.clone()).collect()
                                    } else {
                                        q.cols.clone()
                                    };
                                    let keys: Vec<(usize, bool)> = q
                                        .order
                                        .iter()
                                        .filter_map(|k| {
                                            outcols.iter().position(|c| *c == k.col).map(|i| (i, k.desc))
                                        })
                                        .collect();
                                    if q.limit.is_some() || q.offset.is_some() {
                                        // ties at the cut are legitimately engine-specific:
                                        // compare key sequences only
                                        (key_proj(a, &keys) != key_proj(b, &keys)).then(|| {
                                            format!(
                                                "key sequences differ: disk [{}] mem [{}]",
                                                rows_brief(&key_proj(a, &keys), 12),
                                                rows_brief(&key_proj(b, &keys), 12)
                                            )
                                        })
                                    } else if key_proj(a, &keys) != key_proj(b, &keys) {
                                        Some(format!(
                                            "key sequences differ: disk [{}] mem [{}]",
                                            rows_brief(&key_proj(a, &keys), 12),
                                            rows_brief(&key_proj(b, &keys), 12)
                                        ))
                                    } else {
                                        multiset_diff(a, b)
                                    }
                                }
                                Stmt::RawOrdered { keys, .. } => {
                                    if key_proj(a, keys) != key_proj(b, keys) {
                                        Some(format!(
                                            "key sequences differ: disk [{}] mem [{}]",
                                            rows_brief(&key_proj(a, keys), 12),
                                            rows_brief(&key_proj(b, keys), 12)
                                        ))
                                    } else {
                                        multiset_diff(a, b).map(|d| format!("disk vs mem: {d}"))
                                    }
                                }
                                Stmt::Select(q) if q.limit.is_some() || q.offset.is_some() => {
                                    // which rows come back is engine-specific; count must agree
                                    (a.len() != b.len())
                                        .then(|| format!("row counts differ: disk {} mem {}", a.len(), b.len()))
                                }
                                _ => multiset_diff(a, b).map(|d| format!("disk vs mem: {d}")),
                            };
                            if let Some(d) = diff {
                                let who = match &expect {
                                    Expect::Rows { rows, .. } => {
                                        if multiset_diff(a, rows).is_some() {
                                            "disk deviates from model"
                                        } else {
                                            "memory deviates from model"
                                        }
                                    }
                                    _ => "",
                                };
                                cx.violate(Violation::new(
                                    "C05",
                                    "twin-rows",
                                    Some(i),
                                    format!("{sql}: {d} ({who})"),
                                ));
                            }
                        }
                        (Outcome::Ok(_), _) | (_, Outcome::Ok(_)) => {
                            // class = how the failing twin failed
                            let failing = if out.is_ok() { &mo } else { &out };
                            let side = if out.is_ok() { "mem" } else { "disk" };
                            cx.violate(
                                Violation::new(
                                    "C05",
                                    "twin-outcome",
                                    Some(i),
                                    format!("{sql}: disk {} but memory {}", out.brief(), mo.brief()),
                                )
                                .with_sig(&format!("{side}:{}", err_class(failing))),
                            );
                        }
                        _ => {}
                    }
                }

                // ---- model bookkeeping: the model follows acknowledgements
                let acked = out.is_ok();
                let model_ok = !matches!(expect, Expect::Err(_));
                if acked && model_ok {
                    model.apply(s);
                } else if acked && !model_ok {
                    cx.log
                        .push(format!("    note: model expected {expect:?} but statement succeeded"));
                    cx.probe("model-expected-error-but-ok");
                } else if !acked && model_ok {
                    cx.probe("valid-statement-failed");
                    // Is the rejection about the reopened state, or would this statement be
                    // rejected anywhere? A defect of an optimizer rule (e.g. `k = 1 AND k = NULL`
                    // folds to an untyped NULL the filter operator panics on) is the latter and
                    // not this property's business: the statement is retried with the optimizer
                    // switched off, which cannot cure a damaged table.
                    let mut cured = false;
                    // (only statements the model knows to be valid)
                    let known_valid = !matches!(expect, Expect::Unknown) && !matches!(s, Stmt::Raw(_));
                    if p == "C03" && reopened && s.is_write() && known_valid {
                        let _ = db.exec("PRAGMA disable_optimizer").await;
                        let retry = db.exec(&sql).await;
                        let _ = db.exec("PRAGMA enable_optimizer").await;
                        quiesce().await;
                        cx.log.absorb_journal();
                        if retry.is_ok() {
                            cured = true;
                            cx.probe("statement-fails-with-optimizer-only");
                            cx.log.push(format!("    retried without optimizer => {}", retry.brief()));
                            model.apply(s);
                        }
                    }
                    if p == "C03" && reopened && s.is_write() && known_valid && !cured {
                        cx.violate(
                            Violation::new(
                                "C03",
                                "post-reopen-statement-rejected",
                                Some(i),
                                format!("after reopen, {sql} failed: {}", out.brief()),
                            )
                            .with_sig(&err_class(&out)),
                        );
                    }
                }

                // ---- C07: statement-level checks
                if p == "C07" {
                    if let (Stmt::Delete { .. }, Expect::Count(n), Some(c)) = (s, &expect, out.count()) {
                        cx.stats.evaluations += 1;
                        if c != *n {
                            cx.violate(Violation::new(
                                "C07",
                                "delete-count",
                                Some(i),
                                format!("{sql} reported {c} rows, model removed {n}"),
                            ));
                        }
                    }
                    if matches!(s, Stmt::Delete { .. }) && acked {
                        let l = layout(&root);
                        if l.rowsets_of_max >= 2 || compactions > 0 {
                            nontrivial = true;
                        }
                    }
                }

                // ---- C12 / C13 query oracles
                if let Stmt::Select(q) = s {
                    if p == "C12" && (!q.order.is_empty() || q.limit.is_some() || q.offset.is_some()) {
                        check_order(cx, &db, q, &model, i, &mut nulls_low).await;
                        let l = layout(&root);
                        if l.rowsets_of_max >= 2 || l.dvs > 0 {
                            nontrivial = true;
                        }
                    }
                    if p == "C13" {
                        check_range(cx, &db, q, &model, i).await;
                        let l = layout(&root);
                        if l.rowsets_of_max >= 2 || l.dvs > 0 {
                            nontrivial = true;
                        }
                    }
                }
                let _ = layout_before;
            }
            Step::Advance { ms } => {
                let before = if p == "C07" {
                    Some(snapshot(&db, &model).await)
                } else {
                    None
                };
                let j0 = crate::interpose::journal_snapshot().len();
                advance(Duration::from_millis(*ms)).await;
                cx.log.absorb_journal();
                let evs = crate::interpose::journal_since(j0);
                let compacted = evs
                    .iter()
                    .any(|e| matches!(e, crate::interpose::Ev::Mkdir { .. }));
                let vacuumed = evs
                    .iter()
                    .any(|e| matches!(e, crate::interpose::Ev::Rmdir { .. }));
                if compacted {
                    compactions += 1;
                    cx.probe("compaction-pass-wrote-rowset");
                }
                if vacuumed {
                    cx.probe("vacuum-removed-rowset");
                }
                if let Some(before) = before {
                    let after = snapshot(&db, &model).await;
                    for ((n, b), (_, a)) in before.tables.iter().zip(after.tables.iter()) {
                        cx.stats.evaluations += 1;
                        match (b, a) {
                            (Some(b), Some(a)) => {
                                if let Some(d) = multiset_diff(a, b) {
                                    cx.violate(Violation::new(
                                        "C07",
                                        "compaction-visible",
                                        Some(i),
                                        format!("table {n} changed across ADVANCE {ms}ms (compaction={compacted}): {d}"),
                                    ));
                                }
                            }
                            (Some(_), None) => cx.violate(Violation::new(
                                "C07",
                                "compaction-visible",
                                Some(i),
                                format!("table {n} unreadable after ADVANCE {ms}ms"),
                            )),
                            _ => {}
                        }
                    }
                }
            }
            Step::Reopen => {
                reopen_count += 1;
                let before = snapshot(&db, &model).await;
                let l = layout(&root);
                if model.tables.len() >= 2 || l.rowsets >= 1 || l.dvs >= 1 {
                    if p == "C03" {
                        nontrivial = true;
                    }
                }
                let sd = db.shutdown().await;
                cx.log.absorb_journal();
                if let Err(e) = &sd {
                    if p == "C03" {
                        cx.violate(Violation::new(
                            "C03",
                            "shutdown-failed",
                            Some(i),
                            format!("shutdown returned {e}"),
                        ));
                    }
                }
                drop(db);
                quiesce().await;
                // whether first keys are recorded is an option of each open, but a property of
                // each stored block: some runs switch it at every reopen
                if cx.case.param("flip_first_key", 0) == 1 {
                    knobs.record_first_key = !knobs.record_first_key;
                    cx.probe("first-key-option-switched-at-reopen");
                }
                match Db::open(knobs.options(&root)).await {
                    Ok(d) => db = d,
                    Err(e) => {
                        cx.log.push(format!("    reopen FAILED: {e}"));
                        let v = Violation::new(
                            p,
                            "reopen-failed",
                            Some(i),
                            format!("reopen after clean shutdown failed: {e}"),
                        )
                        .with_sig(&panic_site(&e));
                        // every hist property needs a working database; only C03 owns this
                        // oracle, the others stop here without a verdict of their own
                        if p == "C03" {
                            cx.violate(v);
                        } else {
                            cx.probe("reopen-failed-in-non-C03-run");
                        }
                        finish(cx, t0, nontrivial, max_rowsets, compactions, reopen_count);
                        return;
                    }
                }
                reopened = true;
                // views, indexes and functions are not required to survive a reopen
                model.views.clear();
                model.indexes.clear();
                model.functions.clear();
                cx.log.push("    reopened".into());
                cx.log.absorb_journal();
                if p == "C03" {
                    let after = snapshot(&db, &model).await;
                    for ((n, b), (_, a)) in before.tables.iter().zip(after.tables.iter()) {
                        cx.stats.evaluations += 1;
                        match (b, a) {
                            (Some(b), Some(a)) => {
                                if let Some(d) = multiset_diff(a, b) {
                                    cx.violate(Violation::new(
                                        "C03",
                                        "rows-changed-across-reopen",
                                        Some(i),
                                        format!("table {n}: {d}"),
                                    ));
                                }
                            }
                            (Some(_), None) => cx.violate(Violation::new(
                                "C03",
                                "table-lost-across-reopen",
                                Some(i),
                                format!("table {n} readable before shutdown, not after reopen"),
                            )),
                            _ => {}
                        }
                        // and against the model (acknowledged prefix)
                        if let (Some(a), Some(b), Some(w)) = (a, b, model.tables.get(n)) {
                            // (a difference between before and after is reported above)
                            if multiset_diff(a, b).is_none() {
                                if let Some(d) = multiset_diff(a, &w.1) {
                                    cx.violate(Violation::new(
                                        "C03",
                                        "rows-differ-from-acknowledged-history",
                                        Some(i),
                                        format!("after reopen, table {n}: {d} (the same before shutdown)"),
                                    ));
                                }
                            }
                        }
                    }
                    match (&before.attrs, &after.attrs) {
                        (Some(b), Some(a)) => {
                            cx.stats.evaluations += 1;
                            if a != b {
                                cx.violate(Violation::new(
                                    "C03",
                                    "definition-changed-across-reopen",
                                    Some(i),
                                    format!(
                                        "pg_attribute before [{}] after [{}]",
                                        rows_brief(b, 12),
                                        rows_brief(a, 12)
                                    ),
                                ));
                            }
                            let want = model_attr_rows(&model);
                            if *a != want && *b == want {
                                // covered by the comparison above
                            }
                        }
                        (Some(_), None) => cx.violate(Violation::new(
                            "C03",
                            "definition-changed-across-reopen",
                            Some(i),
                            "pg_attribute unreadable after reopen".into(),
                        )),
                        _ => {}
                    }
                    // the definition also has to *behave* as before: key predicates, key order
                    for ((sql, b, seq), (_, a, _)) in before.probes.iter().zip(after.probes.iter()) {
                        cx.stats.evaluations += 1;
                        let same = match (b, a) {
                            (Some(b), Some(a)) if *seq => b == a,
                            (Some(b), Some(a)) => multiset_diff(a, b).is_none(),
                            (Some(_), None) => false,
                            _ => true,
                        };
                        if !same {
                            cx.violate(Violation::new(
                                "C03",
                                "definition-changed-across-reopen",
                                Some(i),
                                format!(
                                    "{sql}: before shutdown {} rows [{}], after reopen {}",
                                    b.as_ref().map(|r| r.len()).unwrap_or(0),
                                    rows_brief(b.as_deref().unwrap_or(&[]), 8),
                                    match a {
                                        Some(a) => format!("{} rows [{}]", a.len(), rows_brief(a, 8)),
                                        None => "an error".into(),
                                    }
                                ),
                            ).with_sig("behaviour"));
                            break;
                        }
                    }
                    // dropped tables must stay dropped
                    for n in dropped_names(&steps[..=i], &model) {
                        let o = db.exec(&format!("SELECT * FROM {n}")).await;
                        cx.stats.evaluations += 1;
                        if o.is_ok() {
                            cx.violate(Violation::new(
                                "C03",
                                "dropped-table-resurrected",
                                Some(i),
                                format!("table {n} was dropped but is readable after reopen"),
                            ));
                        }
                    }
                }
            }
        }

        // ---- C07: after every step every table equals the model
        if p == "C07" {
            for (n, (def, want)) in model.tables.clone() {
                let o = db.exec(&format!("SELECT * FROM {n}")).await;
                cx.stats.evaluations += 1;
                match o.rows() {
                    Some(got) => {
                        if let Some(d) = multiset_diff(got, &want) {
                            cx.violate(Violation::new(
                                "C07",
                                "table-differs-from-model",
                                Some(i),
                                format!("after [{i}] {}: table {n}: {d}", step.brief()),
                            ));
                        }
                    }
                    None => cx.violate(
                        Violation::new(
                            "C07",
                            "table-unreadable",
                            Some(i),
                            format!("after [{i}] {}: SELECT * FROM {n} => {}", step.brief(), o.brief()),
                        )
                        .with_sig(&err_class(&o)),
                    ),
                }
                // count(*) reads only the row-handler column, a one-column projection reads one
                // data column: both must agree with the model too
                {
                    let o = db.exec(&format!("SELECT count(*) FROM {n}")).await;
                    cx.stats.evaluations += 1;
                    if let Some(c) = o.count() {
                        if c != want.len() as i64 {
                            cx.violate(Violation::new(
                                "C07",
                                "count-differs-from-model",
                                Some(i),
                                format!("after [{i}] {}: SELECT count(*) FROM {n} = {c}, model has {} rows", step.brief(), want.len()),
                            ));
                        }
                    }
                    let ci = i % def.cols.len();
                    let cname = &def.cols[ci].name;
                    let o = db.exec(&format!("SELECT {cname} FROM {n}")).await;
                    cx.stats.evaluations += 1;
                    if let Some(got) = o.rows() {
                        let wantc: Vec<Row> = want.iter().map(|r| vec![r[ci].clone()]).collect();
                        if let Some(d) = multiset_diff(got, &wantc) {
                            cx.violate(Violation::new(
                                "C07",
                                "column-differs-from-model",
                                Some(i),
                                format!("after [{i}] {}: SELECT {cname} FROM {n}: {d}", step.brief()),
                            ));
                        }
                    }
                }
                // ordered scan of a primary-key table is in key order
                // (a key declared as a table constraint makes its column NOT NULL but is not a
                // sort key of the storage)
                if let (Some(pk), false) = (def.pk, def.pk_constraint) {
                    let mut cols: Vec<u32> = (0..def.cols.len() as u32).collect();
                    // sort key must be in the column list; rotate so it is not always first
                    cols.rotate_left(i % def.cols.len());
                    let spec = ScanSpec {
                        table: n.clone(),
                        cols: cols.clone(),
                        sorted: true,
                        range: None,
                        batch: [None, Some(1), Some(3), Some(7)][i % 4],
                    };
                    cx.stats.evaluations += 1;
                    match db.storage_scan(&spec).await {
                        Ok(rows) => {
                            let kpos = cols.iter().position(|c| *c as usize == pk).unwrap();
                            if !sorted_by(&rows, &[(kpos, false)], true) {
                                cx.violate(Violation::new(
                                    "C07",
                                    "sorted-scan-out-of-order",
                                    Some(i),
                                    format!(
                                        "table {n}: sorted storage scan keys [{}]",
                                        rows_brief(&key_proj(&rows, &[(kpos, false)]), 20)
                                    ),
                                ));
                            }
                            let want_proj: Vec<Row> = want
                                .iter()
                                .map(|r| cols.iter().map(|c| r[*c as usize].clone()).collect())
                                .collect();
                            if let Some(d) = multiset_diff(&rows, &want_proj) {
                                cx.violate(Violation::new(
                                    "C07",
                                    "sorted-scan-differs-from-model",
                                    Some(i),
                                    format!("table {n}: {d}"),
                                ));
                            }
                        }
                        Err(e) => cx.violate(
                            Violation::new(
                                "C07",
                                "sorted-scan-failed",
                                Some(i),
                                format!("table {n}: sorted storage scan failed: {}", first_line(&e)),
                            )
                            .with_sig(&panic_site(&e)),
                        ),
                    }
                }
            }
        }
        // ---- C05: after every step every table reads the same on both engines, as a whole and
        // column by column (different column subsets take different paths through the blocks)
        if let (true, Some(mem)) = (p == "C05", &mem) {
            for (n, (def, _)) in model.tables.clone() {
                let ci = i % def.cols.len();
                let cj = (i / 2 + 1) % def.cols.len();
                let queries = [
                    format!("SELECT * FROM {n}"),
                    format!("SELECT {} FROM {n}", def.cols[ci].name),
                    format!("SELECT {}, {} FROM {n}", def.cols[cj].name, def.cols[ci].name),
                ];
                for q in queries {
                    let (a, b) = (db.exec(&q).await, mem.exec(&q).await);
                    cx.stats.evaluations += 1;
                    match (&a, &b) {
                        (Outcome::Ok(x), Outcome::Ok(y)) => {
                            if let Some(d) = multiset_diff(x, y) {
                                cx.violate(Violation::new(
                                    "C05",
                                    "twin-rows",
                                    Some(i),
                                    format!("after [{i}] {}: {q}: disk vs mem: {d}", step.brief()),
                                ));
                            }
                        }
                        (Outcome::Ok(_), _) | (_, Outcome::Ok(_)) => {
                            cx.violate(Violation::new(
                                "C05",
                                "twin-outcome",
                                Some(i),
                                format!("after [{i}] {}: {q}: disk {} but memory {}", step.brief(), a.brief(), b.brief()),
                            ));
                        }
                        _ => {}
                    }
                }
            }
        }
        let l = layout(&root);
        max_rowsets = max_rowsets.max(l.rowsets_of_max);
        if p == "C05" && (l.rowsets_of_max >= 2 || compactions > 0) {
            nontrivial = true;
        }
        if !cx.vio.is_empty() && cx.stop_at_first {
            break;
        }
    }
    if db.shutdown().await.is_err() {
        cx.probe("final-shutdown-failed");
    }
    finish(cx, t0, nontrivial, max_rowsets, compactions, reopen_count);
}

fn finish(
    cx: &mut Ctx,
    t0: tokio::time::Instant,
    nontrivial: bool,
    max_rowsets: usize,
    compactions: u64,
    reopens: u64,
) {
    cx.log.absorb_journal();
    cx.stats.nontrivial = nontrivial;
    cx.stats.sim_ns = now_ns(t0) as u64;
    if max_rowsets >= 2 {
        cx.probe("table-with-several-rowsets");
    }
    if compactions > 0 {
        cx.probe("run-with-compaction");
    }
    if reopens > 0 {
        cx.probe("run-with-reopen");
    }
}

/// Names of tables dropped in the history and not re-created since.
fn dropped_names(steps: &[Step], model: &Model) -> Vec<String> {
    let mut out = vec![];
    for s in steps {
        if let Step::Stmt(Stmt::DropTable { name }) = s {
            for name in name.split(", ").map(String::from) {
                if !model.name_taken(&name) && !out.contains(&name) {
                    out.push(name);
                }
            }
        }
    }
    out
}

pub fn err_class(o: &Outcome) -> String {
    match o {
        Outcome::Ok(_) => "ok".into(),
        Outcome::Err(e) => {
            let l = first_line(e);
            // strip volatile parts (ids, paths)
            let mut s: String = l
                .chars()
                .map(|c| if c.is_ascii_digit() { '#' } else { c })
                .collect();
            let s = crate::rng::cut(&s, 60);
            format!("err:{s}")
        }
        Outcome::Panic(m) => panic_site(m),
    }
}

/// Class of a panic: source file (no line number, so that unrelated edits do not change the
/// class) plus the message with digits masked.
pub fn panic_site(s: &str) -> String {
    let mut file = "?".to_string();
    let mut msg_end = s.len();
    if let Some(p) = s.find(" at ") {
        let rest = &s[p + 4..];
        let end = rest.find(' ').unwrap_or(rest.len());
        let site = &rest[..end];
        if site.contains(".rs:") {
            let tail = site.rsplit("/src/").next().unwrap_or(site);
            file = tail.split(':').next().unwrap_or(tail).to_string();
            msg_end = p;
        }
    }
    let head = &s[..msg_end];
    let head = head.rsplit("panic ").next().unwrap_or(head);
    let mut msg: String = head
        .chars()
        .map(|c| if c.is_ascii_digit() { '#' } else { c })
        .collect();
    let msg = crate::rng::cut(&msg, 48);
    format!("panic@{file}:{msg}")
}

#[derive(Default, Debug, Clone)]
pub struct Layout {
    pub rowsets: usize,
    pub rowsets_of_max: usize,
    pub dvs: usize,
}

/// Physical layout as visible in the directory: row-set directories per table and DV files.
pub fn layout(root: &str) -> Layout {
    let mut per: std::collections::BTreeMap<String, usize> = Default::default();
    let mut l = Layout::default();
    if let Ok(rd) = std::fs::read_dir(root) {
        for e in rd.flatten() {
            let n = e.file_name().to_string_lossy().into_owned();
            if let Some((t, r)) = n.split_once('_') {
                if t.parse::<u32>().is_ok() && r.parse::<u32>().is_ok() {
                    *per.entry(t.to_string()).or_default() += 1;
                    l.rowsets += 1;
                }
            }
        }
    }
    if let Ok(rd) = std::fs::read_dir(format!("{root}/dv")) {
        l.dvs = rd.count();
    }
    l.rowsets_of_max = per.values().copied().max().unwrap_or(0);
    l
}

// ---------------------------------------------------------------------------------------------
// C12: ORDER BY / LIMIT / OFFSET
// ---------------------------------------------------------------------------------------------

async fn check_order(
    cx: &mut Ctx,
    db: &Db,
    q: &Query,
    model: &Model,
    at: usize,
    nulls_low: &mut Option<bool>,
) {
    let Some((def, _)) = model.tables.get(&q.table) else {
        return;
    };
    // base query: no ORDER BY / LIMIT / OFFSET, all columns (so keys are present)
    let mut base = q.clone();
    base.order.clear();
    base.limit = None;
    base.offset = None;
    base.cols.clear();
    let mut ordered = base.clone();
    ordered.order = q.order.clone();
    let mut full = q.clone();
    full.cols.clear();

    let b = db.exec(&base.sql()).await;
    let Some(brow) = b.rows().cloned() else {
        cx.probe("c12-base-query-failed");
        return;
    };
    let keys: Vec<(usize, bool)> = q
        .order
        .iter()
        .map(|k| match &q.group_by {
            // `SELECT g, count(*) .. GROUP BY g ORDER BY g`: the key is output column 0
            Some(_) => (0, k.desc),
            None => (def.col_idx(&k.col).unwrap(), k.desc),
        })
        .collect();

    if !q.order.is_empty() {
        let o = db.exec(&ordered.sql()).await;
        cx.stats.evaluations += 1;
        let Some(orow) = o.rows().cloned() else {
            cx.violate(
                Violation::new(
                    "C12",
                    "ordered-query-failed",
                    Some(at),
                    format!("{} => {} while the unordered query succeeds", ordered.sql(), o.brief()),
                )
                .with_sig(&err_class(&o)),
            );
            return;
        };
        if let Some(d) = multiset_diff(&orow, &brow) {
            cx.violate(Violation::new(
                "C12",
                "order-not-permutation",
                Some(at),
                format!("{}: not a permutation of the unordered result: {d}", ordered.sql()),
            ));
            return;
        }
        let ok_low = sorted_by(&orow, &keys, true);
        let ok_high = sorted_by(&orow, &keys, false);
        let ok = match *nulls_low {
            Some(true) => ok_low,
            Some(false) => ok_high,
            None => ok_low || ok_high,
        };
        if !ok {
            cx.violate(
                Violation::new(
                    "C12",
                    "order-not-sorted",
                    Some(at),
                    format!(
                        "{}: keys come back as [{}]",
                        ordered.sql(),
                        rows_brief(&key_proj(&orow, &keys), 24)
                    ),
                )
                .with_sig(if keys.len() == 1 && def.pk == Some(keys[0].0) && !keys[0].1 {
                    "pk-asc"
                } else {
                    "other"
                }),
            );
            return;
        }
        if nulls_low.is_none() && ok_low != ok_high {
            *nulls_low = Some(ok_low);
        }
        // ORDER BY <ordinal>: the standard's way to name a select-list position is honoured
        // (or refused), never taken for a constant
        if q.group_by.is_none() && keys.len() == 1 && at % 3 == 0 {
            let (ki, desc) = keys[0];
            let mut bare = ordered.clone();
            bare.order.clear();
            let sql = format!("{} ORDER BY {}{}", bare.sql(), ki + 1, if desc { " DESC" } else { "" });
            let o = db.exec(&sql).await;
            cx.stats.evaluations += 1;
            match o.rows() {
                Some(nrow) => {
                    // compared on the key column with the named spelling (which passed above)
                    if key_proj(nrow, &keys) != key_proj(&orow, &keys) {
                        cx.violate(Violation::new(
                            "C12",
                            "order-by-position-ignored",
                            Some(at),
                            format!(
                                "{sql}: keys come back as [{}], ORDER BY {} gives [{}]",
                                rows_brief(&key_proj(nrow, &keys), 16),
                                q.order[0].col,
                                rows_brief(&key_proj(&orow, &keys), 16)
                            ),
                        ));
                        return;
                    }
                    cx.probe("order-by-position-checked");
                }
                None => cx.probe("order-by-position-refused"),
            }
        }
        // an explicit NULLS FIRST / NULLS LAST is honoured (or refused), never silently ignored
        if q.group_by.is_none() && keys.len() == 1 {
            let ki = keys[0].0;
            let n_null = orow.iter().filter(|r| r[ki].is_null()).count();
            if n_null > 0 && n_null < orow.len() {
                let first = at % 2 == 0;
                let sql = format!("{} NULLS {}", ordered.sql(), if first { "FIRST" } else { "LAST" });
                let o = db.exec(&sql).await;
                cx.stats.evaluations += 1;
                match o.rows() {
                    Some(nrow) => {
                        let placed = if first {
                            nrow.iter().take(n_null).all(|r| r[ki].is_null())
                        } else {
                            nrow.iter().rev().take(n_null).all(|r| r[ki].is_null())
                        };
                        if !placed || multiset_diff(nrow, &brow).is_some() {
                            cx.violate(Violation::new(
                                "C12",
                                "nulls-placement-ignored",
                                Some(at),
                                format!("{sql}: keys come back as [{}]", rows_brief(&key_proj(nrow, &keys), 24)),
                            ));
                            return;
                        }
                        cx.probe("nulls-placement-checked");
                    }
                    None => cx.probe("nulls-placement-refused"),
                }
            }
        }
        // the sort key need not be in the select list: with distinct, non-NULL keys the sequence
        // of any other column is determined by the ordered result above
        if q.group_by.is_none() && keys.len() == 1 && def.cols.len() > 1 {
            let ks = key_proj(&orow, &keys);
            let strict = ks.windows(2).all(|w| w[0] != w[1]) && ks.iter().all(|r| !r[0].is_null());
            if strict && !ks.is_empty() {
                let ki = keys[0].0;
                let vi = (ki + 1 + at % (def.cols.len() - 1)) % def.cols.len();
                let mut hidden = ordered.clone();
                hidden.cols = vec![def.cols[vi].name.clone()];
                let h = db.exec(&hidden.sql()).await;
                cx.stats.evaluations += 1;
                match h.rows() {
                    Some(hrow) => {
                        let want: Vec<Row> = orow.iter().map(|r| vec![r[vi].clone()]).collect();
                        if *hrow != want {
                            cx.violate(Violation::new(
                                "C12",
                                "order-by-unselected-key-wrong",
                                Some(at),
                                format!(
                                    "{}: [{}], but in key order the column reads [{}]",
                                    hidden.sql(),
                                    rows_brief(hrow, 16),
                                    rows_brief(&want, 16)
                                ),
                            ));
                            return;
                        }
                        cx.probe("order-by-unselected-key-checked");
                    }
                    None => cx.probe("order-by-unselected-key-query-failed"),
                }
            }
        }
        if q.limit.is_some() || q.offset.is_some() {
            let l = db.exec(&full.sql()).await;
            cx.stats.evaluations += 1;
            let Some(lrow) = l.rows().cloned() else {
                cx.violate(
                    Violation::new(
                        "C12",
                        "limit-query-failed",
                        Some(at),
                        format!("{} => {}", full.sql(), l.brief()),
                    )
                    .with_sig(&err_class(&l)),
                );
                return;
            };
            let m = q.offset.unwrap_or(0) as usize;
            let n = q.limit.map(|n| n as usize).unwrap_or(usize::MAX);
            let lo = m.min(orow.len());
            let hi = lo.saturating_add(n).min(orow.len());
            let want = key_proj(&orow[lo..hi], &keys);
            let got = key_proj(&lrow, &keys);
            if want != got {
                cx.violate(Violation::new(
                    "C12",
                    "limit-slice-wrong",
                    Some(at),
                    format!(
                        "{}: keys [{}], expected rows {}..{} of the ordered result: [{}]",
                        full.sql(),
                        rows_brief(&got, 16),
                        lo,
                        hi,
                        rows_brief(&want, 16)
                    ),
                ));
            } else {
                // the standard spelling of the same cut: OFFSET m ROWS FETCH FIRST n ROWS ONLY
                if let Some(n) = q.limit {
                    let off = match q.offset {
                        Some(m) => format!(" OFFSET {m} ROWS"),
                        None => String::new(),
                    };
                    let fetch = format!("{}{off} FETCH FIRST {n} ROWS ONLY", ordered.sql());
                    let f = db.exec(&fetch).await;
                    cx.stats.evaluations += 1;
                    match f.rows() {
                        Some(frow) if key_proj(frow, &keys) != got => {
                            cx.violate(Violation::new(
                                "C12",
                                "fetch-first-slice-wrong",
                                Some(at),
                                format!(
                                    "{fetch}: keys [{}], the LIMIT spelling returns [{}]",
                                    rows_brief(&key_proj(frow, &keys), 16),
                                    rows_brief(&got, 16)
                                ),
                            ));
                            return;
                        }
                        Some(_) => cx.probe("fetch-first-checked"),
                        None => cx.probe("fetch-first-query-failed"),
                    }
                }
                // a filter on top of the limited query must not reach below the LIMIT: compare
                // with the limited result filtered here (on the first sort key, so that ties at
                // the cut do not matter)
                if q.group_by.is_none() {
                    let (ki, _) = keys[0];
                    let pivot = lrow.iter().map(|r| &r[ki]).filter(|v| !v.is_null()).min().cloned();
                    if let Some(pivot) = pivot {
                        let kname = &q.order[0].col;
                        // (the derived table needs named columns)
                        let mut inner = full.clone();
                        inner.cols = def.cols.iter().map(|c| c.name.clone()).collect();
                        let wrapped =
                            format!("SELECT * FROM ({}) WHERE {kname} > {}", inner.sql(), pivot.sql());
                        let w = db.exec(&wrapped).await;
                        cx.stats.evaluations += 1;
                        if let Some(wrow) = w.rows() {
                            let mut want: Vec<Row> = lrow
                                .iter()
                                .filter(|r| !r[ki].is_null() && cmp_num(&r[ki], &pivot) == std::cmp::Ordering::Greater)
                                .map(|r| vec![r[ki].clone()])
                                .collect();
                            let mut got: Vec<Row> = wrow.iter().map(|r| vec![r[ki].clone()]).collect();
                            want.sort();
                            got.sort();
                            if want != got {
                                cx.violate(Violation::new(
                                    "C12",
                                    "filter-over-limit-wrong",
                                    Some(at),
                                    format!(
                                        "{wrapped}: keys [{}], but the limited query returns [{}] of which [{}] pass the filter",
                                        rows_brief(&got, 12),
                                        rows_brief(&key_proj(&lrow, &keys[..1]), 12),
                                        rows_brief(&want, 12)
                                    ),
                                ));
                                return;
                            }
                            cx.probe("filter-over-limit-checked");
                        } else {
                            cx.probe("filter-over-limit-query-failed");
                        }
                    }
                }
                // rows (not only keys) must come from the full result
                let mut pool = brow.clone();
                for r in &lrow {
                    if let Some(p) = pool.iter().position(|x| x == r) {
                        pool.swap_remove(p);
                    } else {
                        cx.violate(Violation::new(
                            "C12",
                            "limit-row-not-in-result",
                            Some(at),
                            format!("{}: row {} is not in the full result", full.sql(), row_brief(r)),
                        ));
                        break;
                    }
                }
            }
        }
    } else {
        // unordered LIMIT / OFFSET
        let l = db.exec(&full.sql()).await;
        cx.stats.evaluations += 1;
        let Some(lrow) = l.rows().cloned() else {
            cx.violate(
                Violation::new(
                    "C12",
                    "limit-query-failed",
                    Some(at),
                    format!("{} => {}", full.sql(), l.brief()),
                )
                .with_sig(&err_class(&l)),
            );
            return;
        };
        let m = q.offset.unwrap_or(0) as usize;
        let n = q.limit.map(|n| n as usize).unwrap_or(usize::MAX);
        let want = n.min(brow.len().saturating_sub(m));
        if lrow.len() != want {
            cx.violate(Violation::new(
                "C12",
                "limit-count-wrong",
                Some(at),
                format!("{}: {} rows, expected min({n}, max(0, {} - {m})) = {want}", full.sql(), lrow.len(), brow.len()),
            ));
            return;
        }
        let mut pool = brow.clone();
        for r in &lrow {
            if let Some(p) = pool.iter().position(|x| x == r) {
                pool.swap_remove(p);
            } else {
                cx.violate(Violation::new(
                    "C12",
                    "limit-row-not-in-result",
                    Some(at),
                    format!("{}: row {} is not in the full result", full.sql(), row_brief(r)),
                ));
                break;
            }
        }
    }
}

// ---------------------------------------------------------------------------------------------
// C13: key-range scans
// ---------------------------------------------------------------------------------------------

async fn check_range(cx: &mut Ctx, db: &Db, q: &Query, model: &Model, at: usize) {
    let Some((def, _)) = model.tables.get(&q.table) else {
        return;
    };
    let Some(pk) = def.pk else { return };
    let pkname = &def.cols[pk].name;
    let on_pk = q
        .pred
        .0
        .iter()
        .any(|a| matches!(a, Atom::Cmp { col, .. } | Atom::CmpFlipped { col, .. } if col == pkname));
    if !on_pk || q.count {
        return;
    }
    // (1) optimizer on (range pushed into the scan) vs optimizer off (no pushdown)
    let sql = q.sql();
    let on = db.exec(&sql).await;
    let _ = db.exec("PRAGMA disable_optimizer").await;
    let off = db.exec(&sql).await;
    let _ = db.exec("PRAGMA enable_optimizer").await;
    cx.stats.evaluations += 1;
    let pkty = format!("{:?}", def.cols[pk].ty);
    match (&on, &off) {
        (Outcome::Ok(a), Outcome::Ok(b)) => {
            if let Some(d) = multiset_diff(a, b) {
                cx.violate(
                    Violation::new(
                        "C13",
                        "range-scan-differs-from-full-scan",
                        Some(at),
                        format!("{sql}: pushed-down range vs full scan + filter: {d}"),
                    )
                    .with_sig(&format!("pk-{pkty}")),
                );
            }
        }
        (_, Outcome::Ok(_)) => {
            // only the pushdown is this property's business: was a condition pushed into a scan?
            let pushed = match db.exec(&format!("EXPLAIN {sql}")).await {
                Outcome::Ok(rows) => {
                    let plan = format!("{rows:?}");
                    plan.matches("filter:").count() > plan.matches("filter: true").count()
                }
                _ => true,
            };
            if !pushed {
                cx.probe("optimized-statement-failed-without-pushdown");
                return;
            }
            cx.violate(
                Violation::new(
                    "C13",
                    "range-scan-failed",
                    Some(at),
                    format!("{sql}: with pushdown {} but full scan + filter succeeds", on.brief()),
                )
                .with_sig(&format!("pk-{pkty}/{}", err_class(&on))),
            );
        }
        _ => {
            cx.probe("c13-reference-query-failed");
        }
    }
    // (2) against the model
    if let (Outcome::Ok(a), Expect::Rows { rows, .. }) = (&on, model.eval_query(q)) {
        cx.stats.evaluations += 1;
        if let Some(d) = multiset_diff(a, &rows) {
            // only report if the no-pushdown answer agrees with the model (otherwise it is
            // not the range scan that is wrong)
            if let Outcome::Ok(b) = &off {
                if multiset_diff(b, &rows).is_none() {
                    cx.violate(
                        Violation::new(
                            "C13",
                            "range-scan-differs-from-model",
                            Some(at),
                            format!("{sql}: {d}"),
                        )
                        .with_sig(&format!("pk-{pkty}")),
                    );
                }
            }
        }
    }
    // (3) storage level, INT keys at storage column 0 only, on a store that records first keys
    // (the storage API's contract for a range scan)
    if def.cols[pk].ty == Ty::Int && pk == 0 && !def.pk_constraint && cx.case.knobs().record_first_key && cx.case.param("flip_first_key", 0) == 0 {
        let mut lo: Option<(bool, i32)> = None;
        let mut hi: Option<(bool, i32)> = None;
        // one range for the storage API: only when the key conjuncts are at most one lower and
        // one upper bound (or one equality) with INT constants
        let key_atoms: Vec<&Atom> = q
            .pred
            .0
            .iter()
            .filter(|a| matches!(a, Atom::Cmp { col, .. } | Atom::CmpFlipped { col, .. } if col == pkname))
            .collect();
        let simple = key_atoms.iter().all(|a| {
            matches!(a, Atom::Cmp { val: Val::Int(v), .. } | Atom::CmpFlipped { val: Val::Int(v), .. }
                if i32::try_from(*v).is_ok())
        }) && {
            let ops: Vec<Cmp> = key_atoms
                .iter()
                .map(|a| match a {
                    Atom::Cmp { op, .. } | Atom::CmpFlipped { op, .. } => *op,
                    _ => Cmp::Ne,
                })
                .collect();
            let lows = ops.iter().filter(|o| matches!(o, Cmp::Gt | Cmp::Ge)).count();
            let highs = ops.iter().filter(|o| matches!(o, Cmp::Lt | Cmp::Le)).count();
            let eqs = ops.iter().filter(|o| matches!(o, Cmp::Eq)).count();
            !ops.contains(&Cmp::Ne) && ((eqs == 1 && lows + highs == 0) || (eqs == 0 && lows <= 1 && highs <= 1))
        };
        if !simple {
            return;
        }
        for a in &q.pred.0 {
            if let Atom::Cmp { col, op, val: Val::Int(v) } | Atom::CmpFlipped { col, op, val: Val::Int(v) } = a {
                if col != pkname {
                    continue;
                }
                let v = *v as i32;
                match op {
                    Cmp::Eq => {
                        lo = Some((true, v));
                        hi = Some((true, v));
                    }
                    Cmp::Gt => lo = Some((false, v)),
                    Cmp::Ge => lo = Some((true, v)),
                    Cmp::Lt => hi = Some((false, v)),
                    Cmp::Le => hi = Some((true, v)),
                    Cmp::Ne => {}
                }
            }
        }
        if lo.is_none() && hi.is_none() {
            return;
        }
        // the storage API applies the range to the first requested column, which must be the
        // key (storage column 0); the other columns come in a rotating order
        let mut cols: Vec<u32> = (1..def.cols.len() as u32).collect();
        if !cols.is_empty() {
            let n = cols.len();
            cols.rotate_left(at % n);
            cols.truncate(1 + at % n);
        }
        cols.insert(0, 0);
        let filt = ScanSpec {
            table: q.table.clone(),
            cols: cols.clone(),
            sorted: false,
            range: Some((lo, hi)),
            batch: [None, Some(2), Some(5)][at % 3],
        };
        let mut fulls = filt.clone();
        fulls.range = None;
        let (a, b) = (db.storage_scan(&filt).await, db.storage_scan(&fulls).await);
        cx.stats.evaluations += 1;
        let kpos = cols.iter().position(|c| *c == 0).unwrap();
        match (a, b) {
            (Ok(a), Ok(b)) => {
                let inr = |r: &Row| {
                    let Val::Int(k) = r[kpos] else { return false };
                    let k = k as i32;
                    lo.is_none_or(|(inc, v)| if inc { k >= v } else { k > v })
                        && hi.is_none_or(|(inc, v)| if inc { k <= v } else { k < v })
                };
                let want: Vec<Row> = b.into_iter().filter(|r| inr(r)).collect();
                if let Some(d) = multiset_diff(&a, &want) {
                    cx.violate(Violation::new(
                        "C13",
                        "storage-range-scan-wrong",
                        Some(at),
                        format!("scan({:?}, range {:?}..{:?}): {d}", cols, lo, hi),
                    ));
                }
            }
            (Err(e), Ok(_)) => cx.violate(
                Violation::new(
                    "C13",
                    "storage-range-scan-failed",
                    Some(at),
                    format!("scan({:?}, range {:?}..{:?}) failed: {}", cols, lo, hi, first_line(&e)),
                )
                .with_sig(&panic_site(&e)),
            ),
            _ => {}
        }
    }
}
