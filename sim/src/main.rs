#![allow(clippy::too_many_arguments)]
#![allow(clippy::type_complexity)]

mod case;
mod cases;
mod check;
mod corrupt;
mod fault;
mod crash;
mod genr;
mod hist;
mod interpose;
mod known;
mod minimize;
mod model;
mod rng;
mod run;
mod sched;
mod sup;
mod world;

fn usage() -> ! {
    eprintln!(
        "usage:\n  rlsim check <ID> quick|thorough\n  rlsim replay <file>\n  rlsim one <ID> <run-seed>      run one generated case verbosely\n  rlsim determinism <ID> <n>     run n seeds twice, compare event-log hashes"
    );
    std::process::exit(2);
}

fn main() {
    // the vendored tokio runs spawn_blocking jobs synchronously (vendor/tokio/RLSIM_PATCH.md)
    unsafe { std::env::set_var("RLSIM_INLINE_BLOCKING", "1") };
    // One address-space layout for every process of every invocation: ahash (the hash maps of
    // the hash aggregation / hash join executors) seeds itself from the address of a static, so
    // with ASLR the iteration order of those maps - and with it which rows an unordered LIMIT
    // returns - would differ between the run that found a violation and the replay of its file.
    if std::env::var_os("RLSIM_NOASLR").is_none() {
        unsafe {
            std::env::set_var("RLSIM_NOASLR", "1");
            const ADDR_NO_RANDOMIZE: libc::c_ulong = 0x0040000;
            let cur = libc::personality(0xffffffff);
            if cur != -1 && libc::personality(cur as libc::c_ulong | ADDR_NO_RANDOMIZE) != -1 {
                use std::os::unix::process::CommandExt;
                let err = std::process::Command::new("/proc/self/exe")
                    .args(std::env::args_os().skip(1))
                    .exec();
                eprintln!("note: re-exec without ASLR failed ({err}); continuing with ASLR");
            }
        }
    }
    // ahash 0.7 (egg's symbol table) offers no way to replace its random source, whose state is
    // the address of a heap allocation made at first use: make that first use here, where every
    // rlsim process has the same allocation history (and, above, the same address-space layout).
    let _ = ahash07::RandomState::new();
    let args: Vec<String> = std::env::args().collect();
    let a = |i: usize| args.get(i).map(|s| s.as_str());
    match a(1) {
        Some("check") => {
            let (Some(id), Some(tier)) = (a(2), a(3)) else { usage() };
            if run::engine_of(id) == "none" || !matches!(tier, "quick" | "thorough") {
                eprintln!("HARNESS-ERROR no check for property {id:?} / tier {tier:?}");
                std::process::exit(2);
            }
            std::process::exit(check::check(id, tier));
        }
        Some("replay") => {
            let Some(path) = a(2) else { usage() };
            match check::replay(path) {
                Ok((same, same_hash, res, rf)) => {
                    for l in &res.log {
                        println!("{l}");
                    }
                    println!(
                        "replay {path}: class {} reproduced={same} identical_log={same_hash} (hash {:016x}, recorded {:016x})",
                        rf.sig, res.log_hash, rf.expected_log_hash
                    );
                    if let Some(e) = res.harness_error {
                        println!("HARNESS-ERROR {e}");
                        std::process::exit(2);
                    }
                    if same {
                        println!("VIOLATION property={} replay={path}", rf.property);
                        std::process::exit(1);
                    }
                    std::process::exit(0);
                }
                Err(e) => {
                    println!("HARNESS-ERROR {e}");
                    std::process::exit(2);
                }
            }
        }
        Some("rewitness") => {
            // re-run the case of a witness file and refresh its recorded class / log hash
            let Some(path) = a(2) else { usage() };
            let s = std::fs::read_to_string(path).expect("read");
            let rf: check::ReplayFile = serde_json::from_str(&s).expect("parse");
            let res = sup::run_in_child(&rf.case, true, 300);
            match res.violations.iter().find(|v| v.oracle == rf.oracle).or(res.violations.first()) {
                Some(v) => {
                    let name = std::path::Path::new(path).file_stem().unwrap().to_string_lossy().into_owned();
                    let dir = std::path::Path::new(path).parent().unwrap().to_string_lossy().into_owned();
                    let rf2 = check::ReplayFile {
                        property: v.prop.clone(),
                        sig: v.sig.clone(),
                        oracle: v.oracle.clone(),
                        detail: v.detail.clone(),
                        expected_log_hash: res.log_hash,
                        case: rf.case.clone(),
                        log: res.log.clone(),
                    };
                    std::fs::write(format!("{dir}/{name}.json"), serde_json::to_string_pretty(&rf2).unwrap()).unwrap();
                    println!("rewitness {path}: {} {}", v.sig, v.detail);
                }
                None => {
                    println!("rewitness {path}: no violation any more");
                    std::process::exit(1);
                }
            }
        }
        Some("one") => {
            // the seed itself, or `i<n>` = the seed of run number n of a check (VERIF_SEED base)
            let base: u64 = std::env::var("VERIF_SEED").ok().and_then(|s| s.parse().ok()).unwrap_or(1);
            let seed = a(3).and_then(|s| match s.strip_prefix('i') {
                Some(n) => n.parse::<u64>().ok().map(|n| rng::run_seed(base, n)),
                None => s.parse::<u64>().ok(),
            });
            let (Some(id), Some(seed)) = (a(2), seed) else { usage() };
            let case = cases::gen_case(id, seed);
            let res = sup::run_in_child(&case, true, 300);
            for l in &res.log {
                println!("{l}");
            }
            println!("violations: {}", res.violations.len());
            for v in &res.violations {
                println!("  {} {} sig={} :: {}", v.prop, v.oracle, v.sig, v.detail);
            }
            println!("harness_error: {:?}", res.harness_error);
            println!("stats: {}", serde_json::to_string(&res.stats).unwrap());
            println!("hash {:016x}", res.log_hash);
        }
        Some("witness") => {
            // rlsim witness <ID> <seed|iN> <out.json>: run one generated case and write the
            // (pinned) case of its first violation as a replay file
            let base: u64 = std::env::var("VERIF_SEED").ok().and_then(|s| s.parse().ok()).unwrap_or(1);
            let seed = a(3).and_then(|s| match s.strip_prefix('i') {
                Some(n) => n.parse::<u64>().ok().map(|n| rng::run_seed(base, n)),
                None => s.parse::<u64>().ok(),
            });
            let (Some(id), Some(seed), Some(out)) = (a(2), seed, a(4)) else { usage() };
            let case = cases::gen_case(id, seed);
            let res = sup::run_in_child(&case, true, 300);
            let Some(v) = res.violations.first() else {
                println!("no violation");
                std::process::exit(1);
            };
            let pinned = v.pinned.as_deref().cloned().unwrap_or(case);
            let res2 = sup::run_in_child(&pinned, true, 300);
            let Some(v2) = res2.violations.iter().find(|x| x.oracle == v.oracle) else {
                println!("pinned case does not reproduce");
                std::process::exit(1);
            };
            let rf = check::ReplayFile {
                property: v2.prop.clone(),
                sig: v2.sig.clone(),
                oracle: v2.oracle.clone(),
                detail: v2.detail.clone(),
                expected_log_hash: res2.log_hash,
                case: pinned,
                log: res2.log.clone(),
            };
            std::fs::write(out, serde_json::to_string_pretty(&rf).unwrap()).unwrap();
            println!("witness {out}: {} {}", v2.sig, v2.detail);
        }
        Some("gen") => {
            // print the generated case (statements only) without running it
            let base: u64 = std::env::var("VERIF_SEED").ok().and_then(|s| s.parse().ok()).unwrap_or(1);
            let seed = a(3).and_then(|s| match s.strip_prefix('i') {
                Some(n) => n.parse::<u64>().ok().map(|n| rng::run_seed(base, n)),
                None => s.parse::<u64>().ok(),
            });
            let (Some(id), Some(seed)) = (a(2), seed) else { usage() };
            let case = cases::gen_case(id, seed);
            println!("knobs {:?}", case.knobs);
            println!("params {:?} steps {}", case.params, case.steps.len());
            for (i, st) in case.steps.iter().enumerate() {
                let b = st.brief();
                println!("[{i}] {}", rng::cut(&b, 300));
            }
        }
        Some("determinism") => {
            let (Some(id), Some(n)) = (a(2), a(3).and_then(|s| s.parse::<usize>().ok())) else {
                usage()
            };
            let base: u64 = std::env::var("VERIF_SEED").ok().and_then(|s| s.parse().ok()).unwrap_or(1);
            let id = id.to_string();
            let w = check::workers();
            let mk = move |i: usize| cases::gen_case(&id, rng::run_seed(base, (i / 2) as u64));
            let rs = sup::parallel_eval(n * 2, w, 120, 0, &mk);
            let mut diff = 0;
            let mut herr = 0;
            for i in 0..n {
                let (a, b) = (&rs[2 * i], &rs[2 * i + 1]);
                match (a, b) {
                    (Some((_, a)), Some((_, b))) => {
                        if a.harness_error.is_some() || b.harness_error.is_some() {
                            herr += 1;
                        }
                        if a.log_hash != b.log_hash {
                            diff += 1;
                            println!("DIVERGED seed index {i}: {:016x} vs {:016x}", a.log_hash, b.log_hash);
                            // with RLSIM_WANT_LOG=1: where the event logs part
                            for (k, (x, y)) in a.log.iter().zip(b.log.iter()).enumerate() {
                                if x != y {
                                    for l in &a.log[k.saturating_sub(3)..(k + 2).min(a.log.len())] {
                                        println!("    a| {l}");
                                    }
                                    for l in &b.log[k.saturating_sub(1)..(k + 2).min(b.log.len())] {
                                        println!("    b| {l}");
                                    }
                                    break;
                                }
                            }
                        }
                    }
                    _ => herr += 1,
                }
            }
            // and across invocation paths: the same seeds once more, each in a child forked
            // straight from this process (what `replay` does) instead of from a batch worker
            let direct = n.min(40);
            let id2 = a(2).unwrap().to_string();
            for i in 0..direct {
                let case = cases::gen_case(&id2, rng::run_seed(base, i as u64));
                let r = sup::run_in_child(&case, true, 300);
                if let Some((_, a)) = &rs[2 * i] {
                    if a.log_hash != r.log_hash {
                        diff += 1;
                        println!(
                            "DIVERGED seed index {i} (batch worker vs direct child): {:016x} vs {:016x}",
                            a.log_hash, r.log_hash
                        );
                    }
                }
            }
            println!("determinism: {n} seeds x2 (+{direct} again from a direct child), {diff} diverged, {herr} harness errors, workers={w}");
            std::process::exit(if diff == 0 && herr == 0 { 0 } else { 2 });
        }
        _ => usage(),
    }
}
