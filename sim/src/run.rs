//! Executing one case inside the current (child) process.

use std::sync::Arc;

use crate::case::*;
use crate::interpose;
use crate::rng::{Fnv, Rng};
use crate::world::*;

pub struct Ctx {
    pub case: Case,
    pub log: Log,
    pub vio: Vec<Violation>,
    pub stats: RunStats,
    pub root: String,
    pub base: String,
    pub ctl: Arc<Ctl>,
    /// Stream for schedule decisions beyond the recorded ones.
    pub sched_rng: Rng,
    pub decisions_taken: Vec<u32>,
    pub harness_error: Option<String>,
    pub stop_at_first: bool,
}

impl Ctx {
    pub fn violate(&mut self, v: Violation) {
        self.log.push(format!("!! VIOLATION {} {}: {}", v.prop, v.oracle, v.detail));
        self.vio.push(v);
    }
    pub fn probe(&mut self, name: &str) {
        *self.stats.probes.entry(name.to_string()).or_default() += 1;
    }
    /// Take the next schedule decision among `n` enabled alternatives.
    pub fn decide(&mut self, n: usize) -> usize {
        debug_assert!(n > 0);
        let i = self.decisions_taken.len();
        let raw = if i < self.case.decisions.len() {
            self.case.decisions[i]
        } else if self.case.param("pinned_schedule", 0) == 1 {
            0
        } else {
            self.sched_rng.below(1 << 16) as u32
        };
        self.decisions_taken.push(raw);
        self.stats.decisions += 1;
        raw as usize % n
    }
}

/// ahash (hash aggregation, hash join, ...) derives the per-map seed from a counter that starts
/// at, and advances by, the address of a heap allocation - which depends on what the parent
/// process had allocated before the fork. Install a source that depends on the case only.
fn install_hash_seed_source(seed: u64) {
    use std::sync::atomic::{AtomicUsize, Ordering::Relaxed};
    struct Det(AtomicUsize);
    impl ahash::random_state::RandomSource for Det {
        fn gen_hasher_seed(&self) -> usize {
            self.0.fetch_add(0x9E37_79B9_7F4A_7C15, Relaxed)
        }
    }
    let _ = ahash::random_state::set_random_source(Det(AtomicUsize::new(seed as usize)));
}

/// Run one case to completion in this process. Must be called at most once per process.
pub fn run_case(case: &Case, want_log: bool) -> RunResult {
    let mut master = Rng::new(case.seed);
    let entropy_seed = master.fork(1).next();
    let tokio_seed = master.fork(2).next();
    let sched_rng = master.fork(3);
    interpose::seed_entropy(entropy_seed);
    install_hash_seed_source(entropy_seed);
    install_panic_hook();
    let base = format!("/dev/shm/rlsim.{}", std::process::id());
    let _ = std::fs::remove_dir_all(&base);
    if let Err(e) = std::fs::create_dir_all(&base) {
        return RunResult {
            seed: case.seed,
            harness_error: Some(format!("cannot create scratch dir {base}: {e}")),
            ..Default::default()
        };
    }
    let root = format!("{base}/db");
    interpose::start(&root, false);
    let ctl = Ctl::install();
    let mut cx = Ctx {
        case: case.clone(),
        log: Log::default(),
        vio: vec![],
        stats: RunStats::default(),
        root: root.clone(),
        base: base.clone(),
        ctl: ctl.clone(),
        sched_rng,
        decisions_taken: vec![],
        harness_error: None,
        stop_at_first: case.param("stop_at_first", 1) == 1,
    };
    cx.log.push(format!(
        "case prop={} seed={} knobs={:?}",
        case.prop,
        case.seed,
        case.knobs()
    ));

    if case.param("copy_scenario", 0) == 1 {
        // COPY FROM parses its file on a blocking-pool thread that blocks on the runtime
        // (`blocking_send`): such a job cannot run inline. This run uses the real pool; the
        // scheduler waits (bounded) for it between polls, and the verdict of the scenario does
        // not depend on who is faster.
        unsafe { std::env::remove_var("RLSIM_INLINE_BLOCKING") };
    }
    run_sim(tokio_seed, async {
        match engine_of(&case.prop) {
            "hist" => crate::hist::run(&mut cx).await,
            "crash" => crate::crash::run(&mut cx).await,
            "corrupt" => crate::corrupt::run(&mut cx).await,
            "fault" => crate::fault::run(&mut cx).await,
            "sched" => crate::sched::run(&mut cx).await,
            other => cx.harness_error = Some(format!("no engine {other} for {}", case.prop)),
        }
    });

    interpose::stop();
    // Journal self-check: replaying the journal must reproduce the directory byte for byte,
    // otherwise some mutation bypassed the interposer and crash images would be wrong.
    if cx.harness_error.is_none() && cx.case.param("skip_selfcheck", 0) == 0 {
        let j = interpose::journal_snapshot();
        let t = interpose::Tree::from_journal(&j);
        match interpose::Tree::from_dir(&root) {
            Ok(real) => {
                if let Err(e) = t.same_content(&real) {
                    cx.harness_error = Some(format!("journal self-check failed: {e}"));
                }
            }
            Err(e) => cx.harness_error = Some(format!("journal self-check: cannot read {root}: {e}")),
        }
    }
    let st = interpose::stats();
    cx.stats.syscalls = st.calls;
    for (k, v) in st.faults_fired {
        *cx.stats.faults.entry(k).or_default() += v;
    }
    ctl.with(|c| {
        for (k, v) in &c.probes {
            *cx.stats.probes.entry(k.to_string()).or_default() += v;
        }
        for (k, v) in &c.gate_hits {
            *cx.stats.gate_hits.entry(k.to_string()).or_default() += v;
        }
    });
    let panics = take_panics();
    for p in &panics {
        cx.log.push(format!("panic: {p}"));
    }
    // distinct key: workload shape + schedule + fault plan
    let mut f = Fnv::default();
    f.write(
        serde_json::to_string(&(
            &case.steps,
            &case.setup,
            &case.sessions,
            &case.crash_points,
            &case.op_faults,
            &case.io_faults,
            &case.corruptions,
            &case.knobs,
        ))
        .unwrap()
        .as_bytes(),
    );
    f.write(format!("{:?}", cx.decisions_taken).as_bytes());
    cx.stats.distinct_key = f.0;
    cx.stats.schedule_hash = Fnv::of(format!("{:?}", cx.decisions_taken).as_bytes());
    let _ = std::fs::remove_dir_all(&base);

    let fired = !cx.vio.is_empty() || cx.harness_error.is_some();
    RunResult {
        seed: case.seed,
        violations: cx.vio,
        harness_error: cx.harness_error,
        log_hash: cx.log.hash(),
        stats: cx.stats,
        decisions: cx.decisions_taken,
        log: if want_log || fired { cx.log.lines } else { vec![] },
        panics,
    }
}

pub fn engine_of(prop: &str) -> &'static str {
    match prop {
        "C03" | "C05" | "C07" | "C12" | "C13" => "hist",
        "C04" => "crash",
        "C08" | "C09" | "C10" => "sched",
        "C15" => "fault",
        "C18" => "corrupt",
        _ => "none",
    }
}

/// Announce that the next step may kill the process; `result` is what the supervisor reports
/// for this run in that case. `None` withdraws the announcement.
pub fn set_crumb(result: Option<&RunResult>) {
    let path = format!("/dev/shm/rlsim.crumb.{}", std::process::id());
    match result {
        Some(r) => {
            let _ = std::fs::write(&path, serde_json::to_vec(r).unwrap_or_default());
        }
        None => {
            let _ = std::fs::remove_file(&path);
        }
    }
}
