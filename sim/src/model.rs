//! The reference model: a database is a map from table name to (definition, multiset of rows).
//! Statements are structured (`Stmt`), rendered to SQL text for the system under test and
//! applied to the model by a few dozen lines of obviously-correct code (SQL three-valued logic
//! for predicates).

use std::collections::BTreeMap;
use std::fmt::Write as _;

use serde::{Deserialize, Serialize};

#[derive(Clone, Debug, PartialEq, Serialize, Deserialize)]
pub enum Val {
    Null,
    Bool(bool),
    Int(i64),
    /// Doubles are generated as k/4, which is exact in binary and in the SQL text.
    F(f64),
    Str(String),
    /// Anything else the system returned (never generated), kept as text.
    Other(String),
    /// DECIMAL(10,2) values as hundredths.
    Dec(i64),
    /// DATE values in ISO form (lexicographic order = chronological order).
    Date(String),
}

impl Eq for Val {}
// (not derived: `sort()` compares with `lt`, and the derived one is not total when corrupted data
// decodes to NaN)
impl PartialOrd for Val {
    fn partial_cmp(&self, o: &Self) -> Option<std::cmp::Ordering> {
        Some(self.cmp(o))
    }
}
impl Ord for Val {
    fn cmp(&self, o: &Self) -> std::cmp::Ordering {
        fn rank(v: &Val) -> u8 {
            match v {
                Val::Null => 0,
                Val::Bool(_) => 1,
                Val::Int(_) => 2,
                Val::F(_) => 3,
                Val::Str(_) => 4,
                Val::Other(_) => 5,
                Val::Dec(_) => 6,
                Val::Date(_) => 7,
            }
        }
        match (self, o) {
            (Val::Bool(a), Val::Bool(b)) => a.cmp(b),
            (Val::Int(a), Val::Int(b)) => a.cmp(b),
            (Val::F(a), Val::F(b)) => a.total_cmp(b),
            (Val::Str(a), Val::Str(b)) => a.cmp(b),
            (Val::Other(a), Val::Other(b)) => a.cmp(b),
            (Val::Dec(a), Val::Dec(b)) => a.cmp(b),
            (Val::Date(a), Val::Date(b)) => a.cmp(b),
            _ => rank(self).cmp(&rank(o)),
        }
    }
}

impl Val {
    pub fn sql(&self) -> String {
        match self {
            Val::Null => "NULL".into(),
            Val::Bool(b) => if *b { "true" } else { "false" }.into(),
            Val::Int(i) => i.to_string(),
            Val::F(f) => format!("{f:?}"),
            Val::Str(s) => format!("'{}'", s.replace('\'', "''")),
            Val::Other(s) => s.clone(),
            Val::Dec(h) => dec_text(*h),
            Val::Date(d) => format!("DATE '{d}'"),
        }
    }
    pub fn is_null(&self) -> bool {
        matches!(self, Val::Null)
    }
    pub fn brief(&self) -> String {
        match self {
            Val::Null => "NULL".into(),
            Val::Bool(b) => b.to_string(),
            Val::Int(i) => i.to_string(),
            Val::F(f) => format!("{f:?}"),
            Val::Str(s) => format!("'{s}'"),
            Val::Other(s) => format!("?{s}"),
            Val::Dec(h) => dec_text(*h),
            Val::Date(d) => d.clone(),
        }
    }
}

/// A row of recognisable values for `def` (probe statements of the crash and corruption engines).
pub fn probe_row(def: &TableDef, salt: u64) -> Row {
    def.cols
        .iter()
        .map(|c| match c.ty {
            Ty::Int | Ty::BigInt | Ty::SmallInt => Val::Int(5000 + (salt % 50) as i64),
            Ty::Varchar => Val::Str("probe".into()),
            Ty::Bool => Val::Bool(true),
            Ty::Double => Val::F(0.5),
            Ty::Decimal => Val::Dec(12345),
            Ty::Date => Val::Date("2031-07-09".into()),
        })
        .collect()
}

/// Text of a decimal given in hundredths, always with two fractional digits.
pub fn dec_text(h: i64) -> String {
    let a = h.unsigned_abs();
    format!("{}{}.{:02}", if h < 0 { "-" } else { "" }, a / 100, a % 100)
}

pub type Row = Vec<Val>;

pub fn row_brief(r: &Row) -> String {
    let mut s = String::from("(");
    for (i, v) in r.iter().enumerate() {
        if i > 0 {
            s.push(',');
        }
        s.push_str(&v.brief());
    }
    s.push(')');
    s
}

pub fn rows_brief(rows: &[Row], max: usize) -> String {
    let mut s = String::new();
    for (i, r) in rows.iter().enumerate() {
        if i >= max {
            let _ = write!(s, " …(+{})", rows.len() - max);
            break;
        }
        if i > 0 {
            s.push(' ');
        }
        s.push_str(&row_brief(r));
    }
    s
}

#[derive(Clone, Copy, Debug, PartialEq, Eq, Serialize, Deserialize)]
pub enum Ty {
    Int,
    BigInt,
    Varchar,
    Bool,
    Double,
    SmallInt,
    /// DECIMAL(10,2)
    Decimal,
    Date,
}

impl Ty {
    pub fn sql(&self) -> &'static str {
        match self {
            Ty::Int => "INT",
            Ty::BigInt => "BIGINT",
            Ty::Varchar => "VARCHAR",
            Ty::Bool => "BOOLEAN",
            Ty::Double => "DOUBLE",
            Ty::SmallInt => "SMALLINT",
            Ty::Decimal => "DECIMAL(10,2)",
            Ty::Date => "DATE",
        }
    }
}

#[derive(Clone, Debug, PartialEq, Eq, Serialize, Deserialize)]
pub struct Col {
    pub name: String,
    pub ty: Ty,
    pub nullable: bool,
}

#[derive(Clone, Debug, PartialEq, Eq, Serialize, Deserialize)]
pub struct TableDef {
    pub name: String,
    pub cols: Vec<Col>,
    /// Index of the primary-key column, if any.
    pub pk: Option<usize>,
    /// The key is declared as a table constraint `PRIMARY KEY (c)` instead of on the column.
    #[serde(default)]
    pub pk_constraint: bool,
}

impl TableDef {
    pub fn create_sql(&self) -> String {
        let mut s = format!("CREATE TABLE {} (", self.name);
        for (i, c) in self.cols.iter().enumerate() {
            if i > 0 {
                s.push_str(", ");
            }
            let _ = write!(s, "{} {}", c.name, c.ty.sql());
            if self.pk == Some(i) && !self.pk_constraint {
                s.push_str(" PRIMARY KEY");
            } else if !c.nullable {
                s.push_str(" NOT NULL");
            }
        }
        if let (Some(k), true) = (self.pk, self.pk_constraint) {
            let _ = write!(s, ", PRIMARY KEY ({})", self.cols[k].name);
        }
        s.push(')');
        s
    }
    pub fn col_idx(&self, name: &str) -> Option<usize> {
        self.cols.iter().position(|c| c.name == name)
    }
}

#[derive(Clone, Copy, Debug, PartialEq, Eq, Serialize, Deserialize)]
pub enum Cmp {
    Eq,
    Ne,
    Lt,
    Le,
    Gt,
    Ge,
}
impl Cmp {
    pub fn sql(&self) -> &'static str {
        match self {
            Cmp::Eq => "=",
            Cmp::Ne => "<>",
            Cmp::Lt => "<",
            Cmp::Le => "<=",
            Cmp::Gt => ">",
            Cmp::Ge => ">=",
        }
    }
    /// The operator with its operands swapped: `a < b` is `b > a`.
    pub fn mirrored(&self) -> Cmp {
        match self {
            Cmp::Lt => Cmp::Gt,
            Cmp::Le => Cmp::Ge,
            Cmp::Gt => Cmp::Lt,
            Cmp::Ge => Cmp::Le,
            o => *o,
        }
    }
    pub fn test(&self, o: std::cmp::Ordering) -> bool {
        use std::cmp::Ordering::*;
        match self {
            Cmp::Eq => o == Equal,
            Cmp::Ne => o != Equal,
            Cmp::Lt => o == Less,
            Cmp::Le => o != Greater,
            Cmp::Gt => o == Greater,
            Cmp::Ge => o != Less,
        }
    }
}

#[derive(Clone, Debug, PartialEq, Serialize, Deserialize)]
pub enum Atom {
    Cmp { col: String, op: Cmp, val: Val },
    /// The same comparison written with the constant first: `val op' col` (op mirrored).
    CmpFlipped { col: String, op: Cmp, val: Val },
    IsNull { col: String },
    IsNotNull { col: String },
}

/// A conjunction of atoms (empty = no WHERE clause).
#[derive(Clone, Debug, Default, PartialEq, Serialize, Deserialize)]
pub struct Pred(pub Vec<Atom>);

impl Pred {
    pub fn sql(&self) -> String {
        if self.0.is_empty() {
            return String::new();
        }
        let mut s = String::from(" WHERE ");
        for (i, a) in self.0.iter().enumerate() {
            if i > 0 {
                s.push_str(" AND ");
            }
            match a {
                Atom::Cmp { col, op, val } => {
                    let _ = write!(s, "{col} {} {}", op.sql(), val.sql());
                }
                Atom::CmpFlipped { col, op, val } => {
                    let _ = write!(s, "{} {} {col}", val.sql(), op.mirrored().sql());
                }
                Atom::IsNull { col } => {
                    let _ = write!(s, "{col} IS NULL");
                }
                Atom::IsNotNull { col } => {
                    let _ = write!(s, "{col} IS NOT NULL");
                }
            }
        }
        s
    }

    /// SQL three-valued evaluation: Some(true) / Some(false) / None (unknown).
    pub fn eval(&self, def: &TableDef, row: &Row) -> Option<bool> {
        let mut unknown = false;
        for a in &self.0 {
            let r = match a {
                Atom::Cmp { col, op, val } | Atom::CmpFlipped { col, op, val } => {
                    let v = &row[def.col_idx(col).expect("pred column")];
                    if v.is_null() || val.is_null() {
                        None
                    } else {
                        Some(op.test(cmp_num(v, val)))
                    }
                }
                Atom::IsNull { col } => Some(row[def.col_idx(col).unwrap()].is_null()),
                Atom::IsNotNull { col } => Some(!row[def.col_idx(col).unwrap()].is_null()),
            };
            match r {
                Some(false) => return Some(false),
                None => unknown = true,
                Some(true) => {}
            }
        }
        if unknown { None } else { Some(true) }
    }
    pub fn holds(&self, def: &TableDef, row: &Row) -> bool {
        self.eval(def, row) == Some(true)
    }
}

/// Compare two non-null values of compatible type (Int vs F compares numerically).
pub fn cmp_num(a: &Val, b: &Val) -> std::cmp::Ordering {
    match (a, b) {
        (Val::Int(x), Val::F(y)) => (*x as f64).total_cmp(y),
        (Val::F(x), Val::Int(y)) => x.total_cmp(&(*y as f64)),
        (Val::Dec(h), Val::Int(y)) => (*h as i128).cmp(&(*y as i128 * 100)),
        (Val::Int(x), Val::Dec(h)) => (*x as i128 * 100).cmp(&(*h as i128)),
        (Val::Dec(h), Val::F(y)) => (*h as f64 / 100.0).total_cmp(y),
        (Val::F(x), Val::Dec(h)) => x.total_cmp(&(*h as f64 / 100.0)),
        _ => a.cmp(b),
    }
}

#[derive(Clone, Debug, PartialEq, Serialize, Deserialize)]
pub struct OrderKey {
    pub col: String,
    pub desc: bool,
}

#[derive(Clone, Debug, PartialEq, Serialize, Deserialize)]
pub struct Query {
    pub table: String,
    /// Projected columns (empty = `*`).
    pub cols: Vec<String>,
    pub pred: Pred,
    pub order: Vec<OrderKey>,
    pub limit: Option<u64>,
    pub offset: Option<u64>,
    /// `SELECT count(*)`
    pub count: bool,
    /// `SELECT g, count(*) .. GROUP BY g` (ORDER BY may then only name `g`, output position 0)
    #[serde(default)]
    pub group_by: Option<String>,
}

impl Query {
    pub fn star(table: &str) -> Query {
        Query {
            table: table.to_string(),
            cols: vec![],
            pred: Pred::default(),
            order: vec![],
            limit: None,
            offset: None,
            count: false,
            group_by: None,
        }
    }
    pub fn sql(&self) -> String {
        let mut s = String::from("SELECT ");
        if let Some(g) = &self.group_by {
            let _ = write!(s, "{g}, count(*)");
        } else if self.count {
            s.push_str("count(*)");
        } else if self.cols.is_empty() {
            s.push('*');
        } else {
            s.push_str(&self.cols.join(", "));
        }
        let _ = write!(s, " FROM {}", self.table);
        s.push_str(&self.pred.sql());
        if let Some(g) = &self.group_by {
            let _ = write!(s, " GROUP BY {g}");
        }
        if !self.order.is_empty() {
            s.push_str(" ORDER BY ");
            for (i, k) in self.order.iter().enumerate() {
                if i > 0 {
                    s.push_str(", ");
                }
                let _ = write!(s, "{}{}", k.col, if k.desc { " DESC" } else { "" });
            }
        }
        if let Some(n) = self.limit {
            let _ = write!(s, " LIMIT {n}");
        }
        if let Some(m) = self.offset {
            let _ = write!(s, " OFFSET {m}");
        }
        s
    }
}

#[derive(Clone, Debug, PartialEq, Serialize, Deserialize)]
pub enum Stmt {
    CreateTable(TableDef),
    DropTable { name: String },
    /// `CREATE VIEW name(cols) AS SELECT cols FROM of`
    CreateView { name: String, of: String, cols: Vec<String> },
    CreateIndex { name: String, table: String, col: String },
    CreateFunction { name: String },
    Insert { table: String, cols: Vec<String>, rows: Vec<Row> },
    InsertSelect { table: String, from: String, pred: Pred },
    Delete { table: String, pred: Pred },
    Select(Query),
    /// Raw SQL the model does not interpret (only used where the oracle does not need the model).
    Raw(String),
    /// Raw query ending in ORDER BY: `keys` are the (output position, descending) of its sort
    /// keys; results are compared as sequences on those positions.
    RawOrdered { sql: String, keys: Vec<(usize, bool)> },
}

impl Stmt {
    pub fn sql(&self) -> String {
        match self {
            Stmt::CreateTable(d) => d.create_sql(),
            Stmt::DropTable { name } => format!("DROP TABLE {name}"),
            Stmt::CreateView { name, of, cols } => format!(
                "CREATE VIEW {name} ({}) AS SELECT {} FROM {of}",
                cols.join(", "),
                cols.join(", ")
            ),
            Stmt::CreateIndex { name, table, col } => {
                format!("CREATE INDEX {name} ON {table} USING btree ({col})")
            }
            Stmt::CreateFunction { name } => format!(
                "CREATE FUNCTION {name}(x INT) RETURNS INT LANGUAGE sql AS 'select x + 1'"
            ),
            Stmt::Insert { table, cols, rows } => {
                let mut s = format!("INSERT INTO {table}");
                if !cols.is_empty() {
                    let _ = write!(s, " ({})", cols.join(", "));
                }
                s.push_str(" VALUES ");
                for (i, r) in rows.iter().enumerate() {
                    if i > 0 {
                        s.push_str(", ");
                    }
                    s.push('(');
                    for (j, v) in r.iter().enumerate() {
                        if j > 0 {
                            s.push_str(", ");
                        }
                        s.push_str(&v.sql());
                    }
                    s.push(')');
                }
                s
            }
            Stmt::InsertSelect { table, from, pred } => {
                format!("INSERT INTO {table} SELECT * FROM {from}{}", pred.sql())
            }
            Stmt::Delete { table, pred } => format!("DELETE FROM {table}{}", pred.sql()),
            Stmt::Select(q) => q.sql(),
            Stmt::Raw(s) => s.clone(),
            Stmt::RawOrdered { sql, .. } => sql.clone(),
        }
    }
    pub fn is_write(&self) -> bool {
        !matches!(self, Stmt::Select(_) | Stmt::RawOrdered { .. })
    }
}

#[derive(Clone, Debug, Default, PartialEq)]
pub struct Model {
    pub tables: BTreeMap<String, (TableDef, Vec<Row>)>,
    /// Names taken by views (the model only tracks the name space).
    pub views: BTreeMap<String, String>,
    pub indexes: Vec<String>,
    pub functions: Vec<String>,
}

/// What the model expects from a statement.
#[derive(Clone, Debug, PartialEq)]
pub enum Expect {
    /// The statement must fail.
    Err(&'static str),
    /// Succeeds; result rows not checked (DDL).
    Ok,
    /// Succeeds and reports this many affected rows.
    Count(i64),
    /// Succeeds with this multiset of rows (ordered on the ORDER BY keys if `ordered`).
    Rows { rows: Vec<Row>, ordered: bool },
    /// The model does not know.
    Unknown,
}

impl Model {
    pub fn name_taken(&self, n: &str) -> bool {
        self.tables.contains_key(n) || self.views.contains_key(n)
    }

    /// Full rows of `q` before ORDER/LIMIT: filter + projection.
    pub fn eval_filter(&self, q: &Query) -> Option<(Vec<Row>, Vec<usize>)> {
        let (def, rows) = self.tables.get(&q.table)?;
        let proj: Vec<usize> = if q.cols.is_empty() {
            (0..def.cols.len()).collect()
        } else {
            q.cols
                .iter()
                .map(|c| def.col_idx(c))
                .collect::<Option<Vec<_>>>()?
        };
        let out = rows
            .iter()
            .filter(|r| q.pred.holds(def, r))
            .cloned()
            .collect();
        Some((out, proj))
    }

    /// Evaluate a query. For ORDER BY the rows are sorted by the keys (NULL first ascending,
    /// as risinglight's value order places NULL below everything) with ties in unspecified order.
    pub fn eval_query(&self, q: &Query) -> Expect {
        let Some((def, _)) = self.tables.get(&q.table) else {
            return Expect::Err("no such table");
        };
        let Some((mut full, proj)) = self.eval_filter(q) else {
            return Expect::Err("no such column");
        };
        if q.group_by.is_some() {
            // grouped queries are checked metamorphically (C12) and by twin comparison (C05)
            return Expect::Unknown;
        }
        if q.count {
            return Expect::Rows {
                rows: vec![vec![Val::Int(full.len() as i64)]],
                ordered: false,
            };
        }
        if !q.order.is_empty() {
            let keys: Vec<(usize, bool)> = q
                .order
                .iter()
                .map(|k| (def.col_idx(&k.col).unwrap(), k.desc))
                .collect();
            full.sort_by(|a, b| {
                for (i, desc) in &keys {
                    let o = a[*i].cmp(&b[*i]);
                    let o = if *desc { o.reverse() } else { o };
                    if o != std::cmp::Ordering::Equal {
                        return o;
                    }
                }
                std::cmp::Ordering::Equal
            });
        }
        let rows: Vec<Row> = full
            .into_iter()
            .map(|r| proj.iter().map(|i| r[*i].clone()).collect())
            .collect();
        Expect::Rows {
            rows,
            ordered: !q.order.is_empty(),
        }
    }

    /// Coerce a literal to the column type the way INSERT's cast does.
    fn coerce(v: &Val, ty: Ty) -> Val {
        match (v, ty) {
            (Val::Int(i), Ty::Double) => Val::F(*i as f64),
            _ => v.clone(),
        }
    }

    /// Expected outcome of `s` *without* applying it.
    pub fn expect(&self, s: &Stmt) -> Expect {
        match s {
            Stmt::CreateTable(d) => {
                if self.name_taken(&d.name) {
                    Expect::Err("table exists")
                } else {
                    Expect::Ok
                }
            }
            Stmt::DropTable { name } => {
                // `DROP TABLE a, b` is written as the name "a, b"
                let names: Vec<&str> = name.split(", ").collect();
                let distinct = names.iter().collect::<std::collections::BTreeSet<_>>().len() == names.len();
                if names.iter().all(|n| self.name_taken(n)) && distinct {
                    Expect::Ok
                } else if names.len() > 1 {
                    Expect::Unknown
                } else {
                    Expect::Err("no such table")
                }
            }
            Stmt::CreateView { name, of, .. } => {
                if self.name_taken(name) {
                    Expect::Err("exists")
                } else if !self.tables.contains_key(of) {
                    Expect::Err("no such table")
                } else {
                    Expect::Ok
                }
            }
            Stmt::CreateIndex { .. } | Stmt::CreateFunction { .. } => Expect::Unknown,
            Stmt::Insert { table, cols, rows } => {
                let Some((def, _)) = self.tables.get(table) else {
                    return Expect::Err("no such table");
                };
                let names: Vec<&str> = if cols.is_empty() {
                    def.cols.iter().map(|c| c.name.as_str()).collect()
                } else {
                    cols.iter().map(|c| c.as_str()).collect()
                };
                for n in &names {
                    if def.col_idx(n).is_none() {
                        return Expect::Err("no such column");
                    }
                }
                for r in rows {
                    if r.len() != names.len() {
                        return Expect::Err("arity");
                    }
                }
                for (ci, c) in def.cols.iter().enumerate() {
                    let pos = names.iter().position(|n| *n == c.name);
                    let not_null = !c.nullable || def.pk == Some(ci);
                    if !not_null {
                        continue;
                    }
                    match pos {
                        None => return Expect::Err("null into not-null"),
                        Some(p) => {
                            if rows.iter().any(|r| r[p].is_null()) {
                                return Expect::Err("null into not-null");
                            }
                        }
                    }
                }
                Expect::Count(rows.len() as i64)
            }
            Stmt::InsertSelect { table, from, pred } => {
                let (Some((def, _)), Some((fdef, frows))) =
                    (self.tables.get(table), self.tables.get(from))
                else {
                    return Expect::Err("no such table");
                };
                let _ = def;
                let n = frows.iter().filter(|r| pred.holds(fdef, r)).count();
                Expect::Count(n as i64)
            }
            Stmt::Delete { table, pred } => {
                let Some((def, rows)) = self.tables.get(table) else {
                    return Expect::Err("no such table");
                };
                Expect::Count(rows.iter().filter(|r| pred.holds(def, r)).count() as i64)
            }
            Stmt::Select(q) => self.eval_query(q),
            Stmt::Raw(_) | Stmt::RawOrdered { .. } => Expect::Unknown,
        }
    }

    /// Apply an acknowledged statement.
    pub fn apply(&mut self, s: &Stmt) {
        match s {
            Stmt::CreateTable(d) => {
                self.tables.insert(d.name.clone(), (d.clone(), vec![]));
            }
            Stmt::DropTable { name } => {
                for n in name.split(", ") {
                    if self.tables.remove(n).is_none() {
                        self.views.remove(n);
                    }
                }
            }
            Stmt::CreateView { name, of, .. } => {
                self.views.insert(name.clone(), of.clone());
            }
            Stmt::CreateIndex { name, .. } => self.indexes.push(name.clone()),
            Stmt::CreateFunction { name } => self.functions.push(name.clone()),
            Stmt::Insert { table, cols, rows } => {
                let (def, data) = self.tables.get_mut(table).expect("insert target");
                for r in rows {
                    let mut full = vec![Val::Null; def.cols.len()];
                    if cols.is_empty() {
                        for (i, v) in r.iter().enumerate() {
                            full[i] = Self::coerce(v, def.cols[i].ty);
                        }
                    } else {
                        for (n, v) in cols.iter().zip(r) {
                            let i = def.col_idx(n).unwrap();
                            full[i] = Self::coerce(v, def.cols[i].ty);
                        }
                    }
                    data.push(full);
                }
            }
            Stmt::InsertSelect { table, from, pred } => {
                let (fdef, frows) = self.tables.get(from).cloned().expect("insert source");
                let add: Vec<Row> = frows
                    .into_iter()
                    .filter(|r| pred.holds(&fdef, r))
                    .collect();
                self.tables.get_mut(table).unwrap().1.extend(add);
            }
            Stmt::Delete { table, pred } => {
                let (def, data) = self.tables.get_mut(table).expect("delete target");
                let d = def.clone();
                data.retain(|r| !pred.holds(&d, r));
            }
            Stmt::Select(_) | Stmt::Raw(_) | Stmt::RawOrdered { .. } => {}
        }
    }

    pub fn table_rows_sorted(&self, t: &str) -> Option<Vec<Row>> {
        let mut r = self.tables.get(t)?.1.clone();
        r.sort();
        Some(r)
    }
}

/// Multiset comparison of two row lists; returns a description of the difference.
pub fn multiset_diff(got: &[Row], want: &[Row]) -> Option<String> {
    let mut g = got.to_vec();
    let mut w = want.to_vec();
    g.sort();
    w.sort();
    if g == w {
        return None;
    }
    let mut missing = vec![];
    let mut extra = vec![];
    let (mut i, mut j) = (0, 0);
    while i < g.len() || j < w.len() {
        if i < g.len() && j < w.len() && g[i] == w[j] {
            i += 1;
            j += 1;
        } else if j >= w.len() || (i < g.len() && g[i] < w[j]) {
            extra.push(g[i].clone());
            i += 1;
        } else {
            missing.push(w[j].clone());
            j += 1;
        }
    }
    Some(format!(
        "got {} rows, want {}; missing [{}] unexpected [{}]",
        got.len(),
        want.len(),
        rows_brief(&missing, 6),
        rows_brief(&extra, 6)
    ))
}
