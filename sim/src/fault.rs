//! `fault`: C15. For each statement under test a fault-free run on a twin database records the
//! rows and how many items every operator produced; then every (operator, item index,
//! error | panic) is injected in its own execution, plus I/O errors on the k-th syscall of the
//! statement. A statement in which a fault fired must not return success with different rows,
//! and a failed INSERT / DELETE must leave its table unchanged.

use std::collections::BTreeMap;
use std::time::Duration;

use risinglight::verif::ItemFault;

use crate::case::*;
use crate::genr::Step;
use crate::interpose::{self, Class, FaultKind, Tree};
use crate::model::*;
use crate::rng::Rng;
use crate::run::Ctx;
use crate::world::*;

fn sorted(mut r: Vec<Row>) -> Vec<Row> {
    r.sort();
    r
}

fn target_of(s: &Stmt) -> Option<String> {
    match s {
        Stmt::Insert { table, .. } | Stmt::InsertSelect { table, .. } | Stmt::Delete { table, .. } => {
            Some(table.clone())
        }
        Stmt::Raw(sql) => {
            let l = sql.to_ascii_lowercase();
            if let Some(rest) = l.strip_prefix("insert into ") {
                return rest.split_whitespace().next().map(|s| s.to_string());
            }
            if let Some(rest) = l.strip_prefix("delete from ") {
                return rest.split_whitespace().next().map(|s| s.to_string());
            }
            None
        }
        _ => None,
    }
}

pub async fn run(cx: &mut Ctx) {
    if cx.case.param("copy_scenario", 0) == 1 {
        copy_scenario(cx).await;
        return;
    }
    let mut knobs = cx.case.knobs();
    // Never a small block cache: moka evicts during housekeeping that is driven by the real
    // clock, which makes hit/miss (and the number of hash maps created) differ between replays.
    // Read faults are injected into a freshly opened copy instead (cold cache).
    knobs.cache = 262144;
    let steps = cx.case.steps.clone();
    let tests: Vec<Stmt> = cx.case.sessions.first().cloned().unwrap_or_default();
    let t0 = tokio::time::Instant::now();
    let root_a = format!("{}/a", cx.base);
    let root_b = format!("{}/b", cx.base);
    let root_c = format!("{}/c", cx.base);
    // observe both databases: the interposer is only used for call counting and I/O faults
    interpose::start(&cx.base, false);
    cx.case.params.insert("skip_selfcheck".into(), 1);

    // ---------------- build database A, copy it to B
    let a = match Db::open(knobs.options(&root_a)).await {
        Ok(d) => d,
        Err(e) => {
            cx.harness_error = Some(format!("initial open failed: {e}"));
            return;
        }
    };
    let mut model = Model::default();
    for (i, step) in steps.iter().enumerate() {
        cx.log.push(format!("[{i}] {}", step.brief()));
        match step {
            Step::Stmt(s) => {
                let expect = model.expect(s);
                let out = a.exec(&s.sql()).await;
                quiesce().await;
                cx.log.push(format!("    => {}", out.brief()));
                if out.is_ok() && !matches!(expect, Expect::Err(_)) {
                    model.apply(s);
                }
            }
            Step::Advance { ms } => advance(Duration::from_millis(*ms)).await,
            Step::Reopen => {}
        }
    }
    let _ = a.shutdown().await;
    drop(a);
    quiesce().await;
    let tree = match Tree::from_dir(&root_a) {
        Ok(t) => t,
        Err(e) => {
            cx.harness_error = Some(format!("cannot read {root_a}: {e}"));
            return;
        }
    };
    let _ = std::fs::create_dir_all(&root_b);
    if let Err(e) = tree.materialise(&root_b) {
        cx.harness_error = Some(format!("materialise: {e}"));
        return;
    }
    let (a, mut b) = match (
        Db::open(knobs.options(&root_a)).await,
        Db::open(knobs.options(&root_b)).await,
    ) {
        (Ok(a), Ok(b)) => (a, b),
        _ => {
            cx.harness_error = Some("reopen of twin databases failed".into());
            return;
        }
    };
    let names: Vec<String> = model.tables.keys().cloned().collect();
    let mut rng = Rng::new(cx.case.seed ^ 0xFA17);
    let max_op = cx.case.param("max_op_faults_per_stmt", 24) as usize;
    let max_io = cx.case.param("max_io_faults_per_stmt", 10) as usize;
    let explicit = !cx.case.op_faults.is_empty() || !cx.case.io_faults.is_empty();
    let mut injections = 0u64;
    let mut fired_total = 0u64;

    'stmts: for (ti, st) in tests.iter().enumerate() {
        let sql = st.sql();
        cx.log.push(format!("test[{ti}] {sql}"));
        cx.stats.statements += 1;
        let target = target_of(st);
        // pre-statement content of the target (on B; A is identical)
        let pre = match &target {
            Some(t) => b.exec(&format!("SELECT * FROM {t}")).await.rows().cloned().map(sorted),
            None => None,
        };
        // ---- fault-free run on A
        cx.ctl.with(|c| {
            c.op_items.clear();
            c.op_fault = None;
            c.op_fault_fired = false;
        });
        let calls0 = interpose::call_count();
        interpose::set_keep_trace(true);
        let free = a.exec(&sql).await;
        quiesce().await;
        let calls1 = interpose::call_count();
        // the statement's calls as a sorted multiset of (class, path in the database dir, n-th)
        let mut calls: Vec<(Class, String, u64)> = {
            let mut cnt: BTreeMap<(Class, String), u64> = BTreeMap::new();
            let mut v = vec![];
            for (_, class, path) in interpose::take_trace() {
                let Some(rel) = path.strip_prefix("a/").map(|s| s.to_string()).or_else(|| (path == "a").then(String::new)) else {
                    continue;
                };
                let n = cnt.entry((class, rel.clone())).or_default();
                v.push((class, rel, *n));
                *n += 1;
            }
            v
        };
        interpose::set_keep_trace(false);
        calls.sort();
        let ops: BTreeMap<String, usize> = cx.ctl.with(|c| c.op_items.clone());
        if std::env::var_os("RLSIM_DEBUG_ROWS").is_some() {
            use std::hash::{BuildHasher, Hasher};
            let rs = std::collections::hash_map::RandomState::new();
            let mut h = rs.build_hasher();
            h.write_u64(42);
            cx.log.push(format!("       after-fault-free k0-fingerprint {:016x}", h.finish()));
        }
        cx.log.push(format!(
            "    fault-free => {} ; operators {:?} ; {} syscalls",
            free.brief(),
            ops,
            calls1 - calls0
        ));
        let Outcome::Ok(free_rows) = &free else {
            // statements that fail without faults are not the subject
            cx.probe("test-statement-fails-without-fault");
            let _ = b.exec(&sql).await;
            quiesce().await;
            continue;
        };
        let free_rows = sorted(free_rows.clone());
        // With LIMIT / OFFSET which of several tied rows come back is legitimately unspecified
        // (it depends on row-set iteration order): compare the count and require containment
        // in the un-limited result instead of equality.
        let limited_base: Option<Vec<Row>> = match st {
            Stmt::Select(q) if q.limit.is_some() || q.offset.is_some() => {
                let mut base = q.clone();
                base.limit = None;
                base.offset = None;
                a.exec(&base.sql()).await.rows().cloned().map(sorted)
            }
            _ => None,
        };
        let same_result = |rows: &Vec<Row>| -> bool {
            match &limited_base {
                None => *rows == free_rows,
                Some(base) => {
                    rows.len() == free_rows.len() && {
                        let mut pool = base.clone();
                        rows.iter().all(|r| match pool.iter().position(|x| x == r) {
                            Some(p) => {
                                pool.swap_remove(p);
                                true
                            }
                            None => false,
                        })
                    }
                }
            }
        };
        let post = match &target {
            Some(t) => a.exec(&format!("SELECT * FROM {t}")).await.rows().cloned().map(sorted),
            None => None,
        };

        // ---- the fault plan for this statement
        let mut op_plan: Vec<OpFaultSpec> = vec![];
        let mut io_plan: Vec<IoFaultSpec> = vec![];
        if explicit {
            op_plan = cx.case.op_faults.iter().filter(|f| f.step == ti).cloned().collect();
            io_plan = cx.case.io_faults.iter().filter(|f| f.step == ti).cloned().collect();
        } else {
            // the root operator of a DML statement emits its row count after the commit point
            let root_id = ops
                .keys()
                .filter_map(|k| k.split('.').next().and_then(|i| i.parse::<usize>().ok()))
                .max();
            for (op, n) in &ops {
                let id = op.split('.').next().and_then(|i| i.parse::<usize>().ok());
                if target.is_some() && id == root_id {
                    continue;
                }
                for idx in 0..*n {
                    for kind in ["error", "panic"] {
                        op_plan.push(OpFaultSpec {
                            step: ti,
                            op: op.clone(),
                            idx,
                            kind: kind.into(),
                        });
                    }
                }
            }
            while op_plan.len() > max_op {
                let i = rng.usize(op_plan.len());
                op_plan.swap_remove(i);
            }
            // (I/O errors on the manifest's write/fsync used to be a known finding and were kept
            // to a small share of the runs; repaired by 5d480e7, now part of every run)
            for _ in 0..max_io.min(calls.len() * 2) {
                let (class, path, nth) = calls[rng.usize(calls.len())].clone();
                io_plan.push(IoFaultSpec {
                    step: ti,
                    nth,
                    class,
                    path,
                    sticky: false,
                    kind: *rng.pick(&[
                        FaultKind::Eio,
                        FaultKind::Eio,
                        FaultKind::Enospc,
                        FaultKind::Eintr,
                        FaultKind::Short,
                    ]),
                });
            }
            // disk full from some point of a writing statement on
            if target.is_some() && calls1 > calls0 {
                for _ in 0..2 {
                    io_plan.push(IoFaultSpec {
                        step: ti,
                        nth: rng.below(calls1 - calls0),
                        class: Class::Write,
                        path: String::new(),
                        sticky: true,
                        kind: FaultKind::Enospc,
                    });
                }
            }
        }

        // ---- injections on B
        let mut plan: Vec<(Option<OpFaultSpec>, Option<IoFaultSpec>)> = vec![];
        plan.extend(op_plan.into_iter().map(|f| (Some(f), None)));
        plan.extend(io_plan.into_iter().map(|f| (None, Some(f))));
        for (of, iof) in plan {
            injections += 1;
            cx.stats.evaluations += 1;
            let vio_before = cx.vio.len();
            let label;
            let mut benign_io = false;
            let mut cold: Option<Db> = None;
            cx.ctl.with(|c| {
                c.op_fault = None;
                c.op_fault_fired = false;
            });
            interpose::clear_faults();
            let faults_before: u64 = interpose::stats().faults_fired.values().sum();
            if let Some(f) = &of {
                label = format!("{} item {} of operator {}", f.kind, f.idx, f.op);
                cx.ctl.with(|c| {
                    c.op_fault = Some(OpFault {
                        op: f.op.clone(),
                        idx: f.idx,
                        kind: if f.kind == "panic" {
                            ItemFault::Panic
                        } else {
                            ItemFault::Error
                        },
                    })
                });
            } else {
                let f = iof.as_ref().unwrap();
                benign_io = matches!(f.kind, FaultKind::Eintr | FaultKind::Short);
                if f.sticky {
                    label = format!("disk full from syscall #{} of the statement on", f.nth);
                    interpose::set_disk_full_from(Some(interpose::call_count() + f.nth));
                } else if f.class == Class::Read {
                    // cold copy of B: its block cache is empty, so the reads really happen
                    label = format!("{:?} on the {}-th read of the statement (cold copy)", f.kind, f.nth);
                    let _ = std::fs::remove_dir_all(&root_c);
                    let _ = std::fs::create_dir_all(&root_c);
                    let copy = Tree::from_dir(&root_b).and_then(|t| t.materialise(&root_c));
                    match (copy, Db::open(knobs.options(&root_c)).await) {
                        (Ok(()), Ok(d)) => cold = Some(d),
                        _ => {
                            cx.harness_error = Some("cold copy of the twin failed".into());
                            break 'stmts;
                        }
                    }
                    interpose::add_path_fault(Class::Read, "c/*", f.nth, f.kind);
                } else {
                    label = format!("{:?} on {:?} #{} of {}", f.kind, f.class, f.nth, f.path);
                    let p = if f.path.is_empty() { "b".to_string() } else { format!("b/{}", f.path) };
                    interpose::add_path_fault(f.class, &p, f.nth, f.kind);
                }
            }
            let on_copy = cold.is_some();
            let dbx: Db = cold.clone().unwrap_or_else(|| b.clone());
            let out = dbx.exec(&sql).await;
            quiesce().await;
            interpose::clear_faults();
            let op_fired = cx.ctl.with(|c| {
                let f = c.op_fault_fired;
                c.op_fault = None;
                c.op_fault_fired = false;
                f
            });
            let faults_after: u64 = interpose::stats().faults_fired.values().sum();
            let fired = op_fired || faults_after > faults_before;
            if !fired {
                cx.probe("fault-not-reached");
            } else {
                fired_total += 1;
                *cx
                    .stats
                    .faults
                    .entry(match (&of, &iof) {
                        (Some(f), _) => format!("operator:{}", f.kind),
                        (_, Some(f)) => format!("io:{:?}", f.kind),
                        _ => "?".into(),
                    })
                    .or_default() += 1;
            }
            cx.log.push(format!("    inject {label}: fired={fired} => {}", out.brief()));
            if std::env::var_os("RLSIM_DEBUG_ROWS").is_some() {
                {
                    use std::hash::{BuildHasher, Hasher};
                    let rs = std::collections::hash_map::RandomState::new();
                    let mut h = rs.build_hasher();
                    h.write_u64(42);
                    cx.log.push(format!("       k0-fingerprint {:016x}", h.finish()));
                }
                if let Outcome::Ok(r) = &out {
                    cx.log.push(format!("       rows {}", rows_brief(r, 12)));
                }
                cx.log.push(format!("       layout {:?}", {
                    let mut v: Vec<String> = std::fs::read_dir(&root_b).map(|d| d.flatten().map(|e| e.file_name().to_string_lossy().into_owned()).collect()).unwrap_or_default();
                    v.sort();
                    v
                }));
            }
            let pin = |cx: &Ctx| {
                let mut c = cx.case.clone();
                c.op_faults = of.iter().cloned().collect();
                c.io_faults = iof.iter().cloned().collect();
                c
            };
            let opclass = match &of {
                Some(f) => format!(
                    "{}:{}",
                    f.kind,
                    f.op.split('.').nth(1).unwrap_or("?").split_whitespace().next().unwrap_or("?")
                ),
                None => format!("io:{:?}", iof.as_ref().unwrap().kind),
            };
            let mut state_after: Option<Vec<Row>> = None;
            if let Some(t) = &target {
                state_after = dbx.exec(&format!("SELECT * FROM {t}")).await.rows().cloned().map(sorted);
            }
            match &out {
                Outcome::Ok(rows) => {
                    let rows = sorted(rows.clone());
                    if fired && !same_result(&rows) {
                        let v = Violation::new(
                            "C15",
                            "success-with-different-rows",
                            Some(ti),
                            format!(
                                "{sql}: {label} fired but the statement returned Ok with {} rows instead of the fault-free {} rows ({})",
                                rows.len(),
                                free_rows.len(),
                                multiset_diff(&rows, &free_rows).unwrap_or_default()
                            ),
                        )
                        .with_sig(&opclass)
                        .pin(pin(cx));
                        cx.violate(v);
                    } else if fired && target.is_some() && !benign_io {
                        // success although a fault fired: only fine if the full effect is there
                        if state_after != post {
                            let v = Violation::new(
                                "C15",
                                "success-with-partial-effect",
                                Some(ti),
                                format!(
                                    "{sql}: {label} fired, statement returned Ok, but the table is neither in its fault-free post-state"
                                ),
                            )
                            .with_sig(&opclass)
                            .pin(pin(cx));
                            cx.violate(v);
                        } else {
                            cx.probe("fault-masked");
                        }
                    } else if fired {
                        cx.probe("fault-masked");
                    }
                    if !fired && !same_result(&rows) {
                        cx.harness_error = Some(format!(
                            "twin databases diverged without a fault on {sql}: {} vs {}",
                            rows.len(),
                            free_rows.len()
                        ));
                        break 'stmts;
                    }
                }
                Outcome::Err(_) | Outcome::Panic(_) => {
                    if matches!(out, Outcome::Panic(_)) {
                        cx.probe("session-task-panicked");
                    }
                    if !fired {
                        cx.harness_error =
                            Some(format!("{sql} failed on the twin without a fault: {}", out.brief()));
                        break 'stmts;
                    }
                    // a failed INSERT / DELETE leaves the table unchanged
                    if target.is_some() && state_after != pre {
                        let v = Violation::new(
                            "C15",
                            "failed-dml-changed-table",
                            Some(ti),
                            format!(
                                "{sql}: {label} made the statement fail ({}), but the table changed: {}",
                                out.brief(),
                                match (&state_after, &pre) {
                                    (Some(a), Some(p)) => multiset_diff(a, p).unwrap_or_default(),
                                    _ => "table unreadable".into(),
                                }
                            ),
                        )
                        .with_sig(&opclass)
                        .pin(pin(cx));
                        cx.violate(v);
                    }
                }
            }
            // durability side of a non-read I/O fault on DML: what does a freshly opened copy of
            // the directory show? acknowledged => the full effect; failed => nothing.
            if let (Some(t), Some(f), true, false) = (&target, &iof, fired, on_copy) {
                if cx.vio.len() == vio_before {
                    let _ = std::fs::remove_dir_all(&root_c);
                    let _ = std::fs::create_dir_all(&root_c);
                    let copy = Tree::from_dir(&root_b).and_then(|tr| tr.materialise(&root_c));
                    match (copy, Db::open(knobs.options(&root_c)).await) {
                        (Ok(()), Ok(c)) => {
                            let seen = c.exec(&format!("SELECT * FROM {t}")).await.rows().cloned().map(sorted);
                            cx.probe("durability-checked-on-cold-copy");
                            let want = if out.is_ok() { &post } else { &pre };
                            if &seen != want {
                                let v = Violation::new(
                                    "C15",
                                    if out.is_ok() {
                                        "acknowledged-despite-io-error-but-not-durable"
                                    } else {
                                        "failed-dml-visible-after-reopen"
                                    },
                                    Some(ti),
                                    format!(
                                        "{sql}: {label} fired, the statement returned {}, but a reopened copy of the directory shows: {}",
                                        out.brief(),
                                        match (&seen, want) {
                                            (Some(n), Some(p)) => multiset_diff(n, p).unwrap_or_default(),
                                            _ => "table unreadable".into(),
                                        }
                                    ),
                                )
                                .with_sig(&format!("{:?}:{}", f.class, if f.path.contains("manifest") { "manifest" } else { "data" }))
                                .pin(pin(cx));
                                cx.violate(v);
                            }
                            let _ = c.shutdown().await;
                            drop(c);
                            quiesce().await;
                        }
                        (_, Err(e)) => {
                            let v = Violation::new(
                                "C15",
                                "database-unusable-after-failed-statement",
                                Some(ti),
                                format!("{sql}: after {label} ({}) a copy of the directory no longer opens: {}", out.brief(), first_line(&e)),
                            )
                            .with_sig(&opclass)
                            .pin(pin(cx));
                            cx.violate(v);
                        }
                        _ => {
                            cx.harness_error = Some("cold copy of the twin failed".into());
                            break 'stmts;
                        }
                    }
                    let _ = std::fs::remove_dir_all(&root_c);
                }
            }
            // the database keeps working: a later statement on every table succeeds
            if cx.vio.len() == vio_before && fired {
                for n in &names {
                    let o = dbx.exec(&format!("SELECT count(*) FROM {n}")).await;
                    if !o.is_ok() {
                        let v = Violation::new(
                            "C15",
                            "database-unusable-after-failed-statement",
                            Some(ti),
                            format!("{sql}: after {label}, SELECT count(*) FROM {n} => {}", o.brief()),
                        )
                        .with_sig(&opclass)
                        .pin(pin(cx));
                        cx.violate(v);
                        break;
                    }
                }
            }
            if let Some(c) = cold.take() {
                let _ = c.shutdown().await;
                drop(c);
                drop(dbx);
                quiesce().await;
                let _ = std::fs::remove_dir_all(&root_c);
                if cx.vio.len() > vio_before && cx.stop_at_first {
                    break 'stmts;
                }
                continue;
            }
            if cx.vio.len() > vio_before && cx.stop_at_first {
                break 'stmts;
            }
            // if a benign or masked fault let a DML through, B moved to the post state:
            // bring it back in line is not possible, so stop injecting into this statement
            if target.is_some() && state_after != pre {
                if state_after == post {
                    cx.probe("dml-applied-despite-fault");
                }
                // apply the statement on neither: A already has it; continue with next test
                continue 'stmts;
            }
        }
        // ---- keep the twins in sync: apply the statement on B fault-free
        if target.is_some() {
            let o = b.exec(&sql).await;
            quiesce().await;
            let now = match &target {
                Some(t) => b.exec(&format!("SELECT * FROM {t}")).await.rows().cloned().map(sorted),
                None => None,
            };
            if !o.is_ok() || now != post {
                // B was left in a different state by an earlier (reported) injection
                cx.probe("twin-out-of-sync");
                break 'stmts;
            }
        }
    }
    let _ = a.shutdown().await;
    let before_shutdown: Option<(String, Vec<Row>)> = match names.first() {
        Some(n) => b.exec(&format!("SELECT * FROM {n}")).await.rows().cloned().map(|r| (n.clone(), r)),
        None => None,
    };
    let _ = b.shutdown().await;
    // ---- one more failure mode: a statement issued after shutdown() (the background tasks are
    // gone). Whatever it reports must be what a reopened copy of the directory shows.
    if cx.vio.is_empty() && cx.harness_error.is_none() {
        if let (Some((n, before)), true) = (&before_shutdown, true) {
            let Some((def, _)) = model.tables.get(n).cloned() else { return };
            let row = probe_row(&def, 7);
            let ins = Stmt::Insert { table: n.clone(), cols: vec![], rows: vec![row.clone()] };
            let sql = ins.sql();
            let out = b.exec(&sql).await;
            quiesce().await;
            cx.stats.evaluations += 1;
            cx.log.push(format!("after shutdown: {sql} => {}", out.brief()));
            *cx.stats.faults.entry("statement-after-shutdown".into()).or_default() += 1;
            let _ = std::fs::remove_dir_all(&root_c);
            let _ = std::fs::create_dir_all(&root_c);
            let copy = Tree::from_dir(&root_b).and_then(|tr| tr.materialise(&root_c));
            if let (Ok(()), Ok(c)) = (copy, Db::open(knobs.options(&root_c)).await) {
                let seen = c.exec(&format!("SELECT * FROM {n}")).await.rows().cloned();
                if let Some(seen) = seen {
                    let has = seen.iter().filter(|r| **r == row).count();
                    let had = before.iter().filter(|r| **r == row).count();
                    let applied = has > had;
                    if applied != out.is_ok() {
                        let v = Violation::new(
                            "C15",
                            if out.is_ok() {
                                "acknowledged-despite-io-error-but-not-durable"
                            } else {
                                "failed-dml-visible-after-reopen"
                            },
                            None,
                            format!(
                                "{sql} issued after shutdown() returned {}, but a reopened copy of the directory {} the row",
                                out.brief(),
                                if applied { "holds" } else { "does not hold" }
                            ),
                        )
                        .with_sig("after-shutdown");
                        cx.violate(v);
                    }
                }
                let _ = c.shutdown().await;
                drop(c);
                quiesce().await;
            }
            let _ = std::fs::remove_dir_all(&root_c);
        }
    }
    cx.stats.nontrivial = fired_total > 0;
    cx.stats.sim_ns = now_ns(t0) as u64;
    cx.stats.probes.insert("injections".into(), injections);
    cx.stats.probes.insert("injections-fired".into(), fired_total);
}


/// `COPY t FROM 'file'`: the file is parsed by a helper thread that feeds the operator through
/// a channel. Whatever ends that thread in the middle of the file - a field that does not parse
/// (an error) or one whose parsing panics (`2000000000 years` overflows the month count) - must
/// fail the statement and leave the table as it was; a well-formed file loads completely.
async fn copy_scenario(cx: &mut Ctx) {
    let t0 = tokio::time::Instant::now();
    let mut rng = Rng::new(cx.case.seed ^ 0xC0B1);
    let knobs = cx.case.knobs();
    let disk = rng.chance(1, 2);
    let db = if disk {
        match Db::open(knobs.options(&cx.root)).await {
            Ok(d) => d,
            Err(e) => {
                cx.harness_error = Some(format!("open failed: {e}"));
                return;
            }
        }
    } else {
        Db::memory()
    };
    let lines = 200 + rng.usize(3400);
    let csv = format!("{}/copy.csv", cx.base);
    for (round, kind) in ["none", "panic", "error"].iter().enumerate() {
        let table = format!("ct{round}");
        let o = db.exec(&format!("CREATE TABLE {table} (a INT, v INTERVAL)")).await;
        if !o.is_ok() {
            cx.harness_error = Some(format!("create table: {}", o.brief()));
            return;
        }
        // the poison sits anywhere: first line, last line, inside or at the edge of a chunk
        let bad = match rng.usize(5) {
            0 => 0,
            1 => lines - 1,
            2 => 1024.min(lines - 1),
            3 => 1023.min(lines - 1),
            _ => rng.usize(lines),
        };
        let mut text = String::new();
        for i in 0..lines {
            let field = match (*kind, i == bad) {
                ("panic", true) => "2000000000 years".to_string(),
                ("error", true) => "three days".to_string(),
                _ => format!("{} days", i % 28),
            };
            text.push_str(&format!("{i},{field}\n"));
        }
        if let Err(e) = std::fs::write(&csv, text) {
            cx.harness_error = Some(format!("write {csv}: {e}"));
            return;
        }
        let sql = format!("COPY {table} FROM '{csv}' (FORMAT CSV)");
        let out = db.exec(&sql).await;
        // (the scratch directory carries the process id: not in anything that is logged)
        let sql = format!("COPY {table} FROM 'copy.csv' (FORMAT CSV)");
        quiesce().await;
        cx.stats.evaluations += 1;
        cx.stats.statements += 1;
        *cx.stats.faults.entry(format!("copy-from:reader-{kind}")).or_default() += 1;
        let count = db.exec(&format!("SELECT count(*) FROM {table}")).await.count();
        cx.log.push(format!("{sql} [{kind} at line {bad} of {lines}] => {} ; count {count:?}", out.brief()));
        let want = if *kind == "none" { lines as i64 } else { 0 };
        let ok_expected = *kind == "none";
        if out.is_ok() != ok_expected || count != Some(want) {
            cx.violate(
                Violation::new(
                    "C15",
                    if out.is_ok() { "success-with-different-rows" } else { "failed-dml-changed-table" },
                    None,
                    format!(
                        "{sql} with {lines} lines, reader {kind} at line {bad}: returned {}, the table then holds {count:?} rows (expected {} and {want} rows)",
                        out.brief(),
                        if ok_expected { "Ok" } else { "an error" }
                    ),
                )
                .with_sig(&format!("copy-from-{kind}")),
            );
            break;
        }
    }
    let _ = db.shutdown().await;
    drop(db);
    quiesce().await;
    cx.case.params.insert("skip_selfcheck".into(), 1);
    cx.stats.nontrivial = true;
    cx.stats.sim_ns = now_ns(t0) as u64;
}
