//! The registered checks: `rlsim check <ID> quick|thorough`.
//! Runs a batch of seeded simulated runs, triages violations against the known-findings file,
//! minimises and persists new ones, writes the evidence file, sets the exit code.

use std::collections::{BTreeMap, BTreeSet};

use serde::{Deserialize, Serialize};
use serde_json::json;

use crate::case::*;
use crate::cases::gen_case;
use crate::rng::run_seed;
use crate::sup::*;

/// Root of the verification tree (evidence, replays, known findings). `./check` passes the
/// directory it lives in, so that a snapshot of /verif run elsewhere writes into itself.
fn verif_root() -> String {
    std::env::var("RLSIM_ROOT").unwrap_or_else(|_| "/verif".to_string())
}

#[derive(Clone, Debug, Serialize, Deserialize)]
pub struct KnownFinding {
    pub id: String,
    pub property: String,
    /// "open" or "fixed"
    pub status: String,
    pub oracle: String,
    /// Substring the violation's class signature must contain.
    #[serde(default)]
    pub sig_contains: String,
    /// Name of a reviewed predicate over (minimised case, violation) in `known.rs`.
    #[serde(default)]
    pub predicate: String,
    /// Replay file (relative to /verif) that demonstrates the finding.
    #[serde(default)]
    pub witness: String,
    pub what_fails: String,
    #[serde(default)]
    pub commit: String,
}

#[derive(Clone, Debug, Default, Serialize, Deserialize)]
pub struct KnownFile {
    pub findings: Vec<KnownFinding>,
    #[serde(default)]
    pub fixed: Vec<String>,
}

pub fn load_known() -> KnownFile {
    match std::fs::read_to_string(format!("{}/known_findings.json", verif_root())) {
        Ok(s) => serde_json::from_str(&s).unwrap_or_else(|e| {
            eprintln!("HARNESS-ERROR known_findings.json unreadable: {e}");
            std::process::exit(2);
        }),
        Err(_) => KnownFile::default(),
    }
}

pub fn matches_known<'a>(k: &'a [KnownFinding], case: &Case, v: &Violation) -> Option<&'a KnownFinding> {
    k.iter().find(|f| {
        f.status == "open"
            && f.property == v.prop
            && f.oracle.split('|').any(|o| o == v.oracle)
            && v.sig.contains(&f.sig_contains)
            && crate::known::predicate(&f.predicate, case, v)
    })
}

pub struct Budget {
    pub runs: usize,
    pub wall_cap_s: u64,
}

pub fn budget(prop: &str, tier: &str) -> Budget {
    let quick = tier != "thorough";
    let (q, t) = match prop {
        "C03" => (4000, 120_000),
        "C05" => (6000, 120_000),
        "C07" => (3000, 90_000),
        "C12" => (3000, 90_000),
        "C13" => (3000, 90_000),
        "C04" => (600, 8_000),
        "C08" => (4000, 120_000),
        "C09" => (4000, 120_000),
        "C10" => (4000, 120_000),
        "C15" => (2400, 40_000),
        "C18" => (1000, 30_000),
        _ => (100, 1000),
    };
    let scale = std::env::var("VERIF_RUNS_SCALE")
        .ok()
        .and_then(|s| s.parse::<f64>().ok())
        .unwrap_or(1.0);
    Budget {
        runs: (((if quick { q } else { t }) as f64) * scale).max(1.0) as usize,
        wall_cap_s: if quick { 150 } else { 1500 },
    }
}

pub fn workers() -> usize {
    std::env::var("VERIF_WORKERS")
        .ok()
        .and_then(|s| s.parse().ok())
        .unwrap_or_else(|| {
            std::thread::available_parallelism()
                .map(|n| n.get())
                .unwrap_or(4)
        })
}

fn level_of(prop: &str) -> &'static str {
    match prop {
        "C04" | "C15" | "C18" => "fault_enumeration",
        _ => "exploration",
    }
}

fn rule_of(prop: &str) -> &'static str {
    match prop {
        "C03" => "one run = one seeded single-session history (DDL incl. views/indexes/functions, multi-row INSERT, INSERT..SELECT, DELETE WHERE, simulated-time advances that trigger compaction+vacuum, 1-4 clean shutdown+reopen cycles) on the real on-disk engine with swarm-drawn storage knobs; non-trivial = at least one reopen happened with >=2 tables or >=1 row-set/DV on disk; distinct = distinct hash of (knobs, statement list)",
        "C05" => "one run = one seeded statement stream driven into new_in_memory() and new_on_disk(knobs) in the same process, the disk twin additionally getting simulated-time advances (compaction) and reopen; non-trivial = the disk twin had >=2 row-sets in a table or a compaction pass; distinct = distinct (knobs, statement list)",
        "C07" => "one run = one seeded history over {INSERT batch, DELETE WHERE p, advance clock past the 1 s compactor timer, reopen} with row-set sizes forcing several row-sets and partial compactions; after every step every table is compared with the model, DELETE counts are checked, results before/after each pass are compared, sorted storage scans are checked; non-trivial = a DELETE ran on a table with >=2 row-sets or after a compaction; distinct = distinct (knobs, statement list)",
        "C12" => "one run = one seeded layout history (several INSERTs => several row-sets, DELETEs, compaction passes, reopen) with ORDER BY / LIMIT / OFFSET queries at query points; each query is checked against the engine's own unordered result (sortedness on K, permutation, slice m..m+n, unordered LIMIT count + containment); non-trivial = queried table had >=2 row-sets or a DV at a query point; distinct = distinct (knobs, statement list)",
        "C13" => "one run = one seeded layout history on tables with a primary key at any column position, tiny blocks, with key-range queries (=,<,<=,>,>=, two-sided, residual predicates, projections) at query points; each is compared with the same query under PRAGMA disable_optimizer, with the model, and at storage level scan(range) vs scan()+filter; non-trivial = queried table had >=2 row-sets or a DV; distinct = distinct (knobs, statement list)",
        "C04" => "one run = one seeded single-session history (3-8 statements + clock advances) executed once with every mutating syscall journalled, then crash images derived from the journal: quick samples crash indexes (all indexes near a manifest write, 25 % of the others), torn lengths {1, n/2, n-1} of the write in flight, both durability models (prefix / lost un-synced tails), and one-level crash during recovery; thorough enumerates every index, every byte of manifest writes. evaluations = crash images recovered and checked (+ post-recovery probe statements); non-trivial = image taken inside a statement; distinct = distinct (knobs, history)",
        "C18" => "one run = one seeded database (1-3 tables, several row-sets, DVs, possibly compacted; CRC32 checksums as default_for_cli) whose .col/.idx files are then corrupted one fault at a time: bit flip / byte overwrite / zero-filled sector / truncation at first, last, middle, the last 12 bytes (block trailer, index footer) and seeded positions x read order {corrupt then open; open, cache all blocks, corrupt; open, corrupt before any read} x optional compaction pass over the damaged data; every table is then read three times. evaluations = queries issued against corrupted databases; non-trivial = at least one corruption applied; distinct = distinct (knobs, history)",
        "C15" => "one run = one seeded database (2-3 tables, several row-sets/blocks so that operators emit several items) and 4-8 statements under test (filtered scans, GROUP BY / global aggregates, ORDER BY [LIMIT], two-table joins, INSERT VALUES, INSERT..SELECT, DELETE WHERE); for each, a fault-free execution on a twin database records rows and per-operator item counts, then every (operator, item index, error|panic) below a DML root (sampled down to 24 per statement in quick) and seeded I/O faults (EIO, ENOSPC, EINTR, short transfer on the k-th syscall of the statement) are injected one per execution. evaluations = injected executions; non-trivial = at least one injected fault actually fired; distinct = distinct (knobs, history, statements)",
        "C08" => "one run = one seeded setup (2-3 tables with several row-sets and DVs), 2-4 writer sessions (INSERT / DELETE / DROP TABLE), 1-2 storage-level readers stepping through open / scan / next_batch(n), the real compactor and vacuum tasks, a seeded subset of in-engine gate sites, and one seeded schedule (<= 400 decisions, <= 6 clock advances). evaluations = readers checked; non-trivial = a commit or a vacuum removal happened between a reader's pin and its last batch; distinct = distinct (case, schedule) pairs",
        "C09" => "one run = one seeded setup (2-3 tables, several row-sets), 2-4 sessions x 1-3 INSERT/DELETE statements, compactor + vacuum gated at a seeded subset of sites, one seeded schedule. evaluations = final-state checks (+ reopen checks); non-trivial = a compaction pass reached its commit while DML gates were being released in the same run; distinct = distinct (case, schedule) pairs",
        "C10" => "one run = one seeded setup, 2-4 sessions x 1-4 statements from {CREATE/DROP TABLE incl. the same names, INSERT, DELETE WHERE, SELECT count(*)}, a seeded subset of gate sites (bind, pin, commit, DDL, compactor), one seeded schedule. evaluations = serial-order searches (+ reopen checks); non-trivial = statements of two sessions were in flight at the same time; distinct = distinct (case, schedule) pairs",
        _ => "see DESIGN.md",
    }
}

pub fn components() -> serde_json::Value {
    json!({
        "real": ["risinglight library end to end: parser, binder, egg optimizer, executors (one tokio task per operator), in-memory engine, on-disk engine (manifest, row-set writer/reader, block cache, delete vectors, version manager, compactor, vacuum)", "tokio runtime (current_thread; spawn_blocking jobs run inline on the scheduler thread, see vendor/tokio/RLSIM_PATCH.md)", "std::fs / tokio::fs on a tmpfs directory"],
        "simulated": ["clock (tokio paused time; the scheduler decides every advance)", "task interleaving at gates (seeded scheduler releases exactly one parked actor per decision)", "disk durability / crash / torn write / lost un-synced tail / I/O error / at-rest corruption (libc interposition + journal)", "OS entropy (getrandom(), getentropy() and syscall(SYS_getrandom) served from the seeded stream; ahash random source derived from the case seed; no ASLR) => hash-map iteration order"],
        "stub": [],
        "absent": ["pgwire server / network", "CLI", "multi-threaded runtime preemption inside a poll (blocking-pool jobs run inline on the scheduler thread, except in the C15 COPY FROM scenario, whose reader thread is real)"]
    })
}

pub struct BatchSummary {
    pub evaluations: u64,
    pub runs: usize,
    pub distinct_nontrivial: usize,
    pub violations: Vec<(Case, RunResult, Violation)>,
    pub harness_errors: Vec<(u64, String)>,
    pub coverage: serde_json::Value,
}

pub fn run_batch(prop: &str, tier: &str, seed: u64, runs: usize, wall_cap_s: u64) -> BatchSummary {
    let w = workers();
    let p = prop.to_string();
    let started = std::time::Instant::now();
    let child_timeout = if tier == "thorough" { 900 } else { 300 };
    let results = parallel_eval(runs, w, child_timeout, wall_cap_s, &move |i| {
        gen_case(&p, run_seed(seed, i as u64))
    });
    let wall = started.elapsed().as_secs_f64();
    let mut distinct: BTreeSet<u64> = BTreeSet::new();
    let mut schedules: BTreeSet<u64> = BTreeSet::new();
    let mut faults: BTreeMap<String, u64> = BTreeMap::new();
    let mut probes: BTreeMap<String, u64> = BTreeMap::new();
    let mut gate_hits: BTreeMap<String, u64> = BTreeMap::new();
    let (mut evals, mut done, mut sim_ns, mut decisions, mut stmts, mut syscalls) =
        (0u64, 0usize, 0u128, 0u64, 0u64, 0u64);
    let mut violations = vec![];
    let mut harness_errors = vec![];
    let mut samples = vec![];
    for r in results.into_iter().flatten() {
        let (case, res) = r;
        done += 1;
        evals += res.stats.evaluations.max(1);
        sim_ns += res.stats.sim_ns as u128;
        decisions += res.stats.decisions;
        stmts += res.stats.statements;
        syscalls += res.stats.syscalls;
        if res.stats.nontrivial {
            distinct.insert(res.stats.distinct_key);
        }
        schedules.insert(res.stats.schedule_hash);
        for (k, v) in &res.stats.faults {
            *faults.entry(k.clone()).or_default() += v;
        }
        for (k, v) in &res.stats.probes {
            *probes.entry(k.clone()).or_default() += v;
        }
        for (k, v) in &res.stats.gate_hits {
            *gate_hits.entry(k.clone()).or_default() += v;
        }
        if let Some(e) = &res.harness_error {
            harness_errors.push((res.seed, e.clone()));
        }
        if samples.len() < 3 && res.stats.nontrivial {
            samples.push(sample_of(&case));
        }
        for v in &res.violations {
            violations.push((case.clone(), res.clone(), v.clone()));
        }
    }
    let coverage = json!({
        "evaluations": evals,
        "distinct_nontrivial": distinct.len(),
        "rule": rule_of(prop),
        "samples": samples,
        "runs": done,
        "runs_requested": runs,
        "tier": tier,
        "workers": w,
        "runs_per_hour": if wall > 0.0 { (done as f64 / wall * 3600.0) as u64 } else { 0 },
        "sim_time_covered_s": sim_ns as f64 / 1e9,
        "statements_executed": stmts,
        "syscalls_observed": syscalls,
        "scheduler_decisions": decisions,
        "distinct_schedules": schedules.len(),
        "faults_fired": faults,
        "probes": probes,
        "gate_hits": gate_hits,
        "components": components(),
        "exhaustive": false,
    });
    BatchSummary {
        evaluations: evals,
        runs: done,
        distinct_nontrivial: distinct.len(),
        violations,
        harness_errors,
        coverage,
    }
}

fn sample_of(case: &Case) -> serde_json::Value {
    let mut steps: Vec<String> = case.steps.iter().map(|s| s.brief()).collect();
    steps.truncate(40);
    json!({
        "seed": case.seed,
        "knobs": case.knobs,
        "steps": steps,
        "setup": case.setup.iter().map(|s| s.sql()).collect::<Vec<_>>(),
        "sessions": case.sessions.iter().map(|s| s.iter().map(|x| x.sql()).collect::<Vec<_>>()).collect::<Vec<_>>(),
        "crash_points": case.crash_points.len(),
        "op_faults": case.op_faults,
        "io_faults": case.io_faults,
        "corruptions": case.corruptions,
    })
}

#[derive(Serialize, Deserialize)]
pub struct ReplayFile {
    pub property: String,
    pub sig: String,
    pub oracle: String,
    pub detail: String,
    pub expected_log_hash: u64,
    pub case: Case,
    #[serde(default)]
    pub log: Vec<String>,
}

pub fn write_replay(name: &str, case: &Case, res: &RunResult, v: &Violation) -> String {
    let dir = format!("{}/replays", verif_root());
    let _ = std::fs::create_dir_all(&dir);
    let path = format!("{dir}/{name}.json");
    let rf = ReplayFile {
        property: v.prop.clone(),
        sig: v.sig.clone(),
        oracle: v.oracle.clone(),
        detail: v.detail.clone(),
        expected_log_hash: res.log_hash,
        case: case.clone(),
        log: res.log.clone(),
    };
    std::fs::write(&path, serde_json::to_string_pretty(&rf).unwrap()).expect("write replay");
    path
}

/// Replay a file in a fresh child. Returns (reproduced same class, same log hash, result).
pub fn replay(path: &str) -> Result<(bool, bool, RunResult, ReplayFile), String> {
    let s = std::fs::read_to_string(path).map_err(|e| format!("{path}: {e}"))?;
    let rf: ReplayFile = serde_json::from_str(&s).map_err(|e| format!("{path}: {e}"))?;
    let res = run_in_child(&rf.case, true, 300);
    let same = res.violations.iter().any(|v| v.sig == rf.sig);
    let same_hash = res.log_hash == rf.expected_log_hash;
    Ok((same, same_hash, res, rf))
}

pub fn check(prop: &str, tier: &str) -> i32 {
    let seed: u64 = std::env::var("VERIF_SEED")
        .ok()
        .and_then(|s| s.parse().ok())
        .unwrap_or(1);
    let b = budget(prop, tier);
    // case generation (in the forked workers) deepens the enumerations in the thorough tier
    unsafe { std::env::set_var("RLSIM_TIER", if tier == "thorough" { "thorough" } else { "quick" }) };
    let started = std::time::Instant::now();
    let known = load_known();
    let mine: Vec<KnownFinding> = known
        .findings
        .iter()
        .filter(|f| f.property == prop)
        .cloned()
        .collect();

    let mut exit = 0;
    let mut known_lines: BTreeSet<String> = BTreeSet::new();

    // 1. witnesses of open known findings: do they still reproduce?
    for f in mine.iter().filter(|f| f.status == "open" && !f.witness.is_empty()) {
        match replay(&format!("{}/{}", verif_root(), f.witness)) {
            Ok((true, _, _, _)) => {
                known_lines.insert(format!(
                    "KNOWN-FINDING: property={} id={} {}",
                    f.property, f.id, f.what_fails
                ));
            }
            Ok((false, _, res, _)) => {
                if let Some(e) = res.harness_error {
                    println!("HARNESS-ERROR witness {} : {e}", f.witness);
                    exit = 2;
                } else {
                    println!(
                        "NOTE: witness of known finding {} no longer reproduces on this tree",
                        f.id
                    );
                }
            }
            Err(e) => {
                println!("HARNESS-ERROR {e}");
                exit = 2;
            }
        }
    }

    // 2. the batch
    let sum = run_batch(prop, tier, seed, b.runs, b.wall_cap_s);
    // A run that exceeds its wall-clock limit says something about the load of the machine (or a
    // slow statement), not about the property: a few of them are skipped runs, reported as
    // such; many of them mean the check itself is not working.
    let timeouts: Vec<&(u64, String)> =
        sum.harness_errors.iter().filter(|(_, e)| e.contains("child timed out")).collect();
    let others: Vec<&(u64, String)> =
        sum.harness_errors.iter().filter(|(_, e)| !e.contains("child timed out")).collect();
    let tolerated = 3usize.max(sum.runs / 100);
    if !timeouts.is_empty() && timeouts.len() <= tolerated {
        println!(
            "NOTE: {} of {} runs exceeded the per-run wall-clock limit and were skipped (seeds {})",
            timeouts.len(),
            sum.runs,
            timeouts.iter().take(5).map(|(s, _)| s.to_string()).collect::<Vec<_>>().join(" ")
        );
    }
    for (s, e) in others.iter().take(5) {
        println!("HARNESS-ERROR run seed={s}: {e}");
    }
    if timeouts.len() > tolerated {
        for (s, e) in timeouts.iter().take(5) {
            println!("HARNESS-ERROR run seed={s}: {e}");
        }
    }
    if !others.is_empty() || timeouts.len() > tolerated {
        exit = 2;
    }

    // 3. triage violations: group by class signature
    let mut by_sig: BTreeMap<String, Vec<&(Case, RunResult, Violation)>> = BTreeMap::new();
    for v in &sum.violations {
        by_sig.entry(v.2.sig.clone()).or_default().push(v);
    }
    let mut new_violations = 0;
    let mut unconfirmed = 0;
    let mut known_hits: BTreeMap<String, u64> = BTreeMap::new();
    for (sig, group) in &by_sig {
        // a class is "known" only if every instance matches a listed finding
        let mut unknown: Vec<&&(Case, RunResult, Violation)> = vec![];
        for g in group {
            match matches_known(&mine, &g.0, &g.2) {
                Some(f) => {
                    *known_hits.entry(f.id.clone()).or_default() += 1;
                    known_lines.insert(format!(
                        "KNOWN-FINDING: property={} id={} {}",
                        f.property, f.id, f.what_fails
                    ));
                }
                None => unknown.push(g),
            }
        }
        if unknown.is_empty() {
            continue;
        }
        // minimise the first unknown instance, then re-classify the minimised form
        let (case, res, v) = &***unknown.iter().min_by_key(|g| g.0.steps.len() + g.0.sessions.iter().map(|s| s.len()).sum::<usize>()).unwrap();
        let pinned_case;
        let case = match &v.pinned {
            Some(p) => {
                pinned_case = (**p).clone();
                &pinned_case
            }
            None => case,
        };
        let (mcase, mres) = crate::minimize::minimise(case, res, sig, workers(), 600);
        let mv = mres
            .violations
            .iter()
            .find(|x| x.sig == *sig)
            .cloned()
            .unwrap_or_else(|| v.clone());
        if let Some(f) = matches_known(&mine, &mcase, &mv) {
            // the minimised form is the known one: were all the raw instances the same defect?
            *known_hits.entry(f.id.clone()).or_default() += unknown.len() as u64;
            known_lines.insert(format!(
                "KNOWN-FINDING: property={} id={} {}",
                f.property, f.id, f.what_fails
            ));
            continue;
        }
        new_violations += 1;
        let name = format!(
            "{}-{}-{:016x}",
            prop,
            mv.oracle,
            crate::rng::Fnv::of(sig.as_bytes())
        );
        // confirm from the file, twice, in fresh children
        let path = write_replay(&name, &mcase, &mres, &mv);
        let confirm = replay(&path);
        let confirmed = matches!(confirm, Ok((true, _, _, _)));
        let exact = matches!(confirm, Ok((true, true, _, _)));
        if !confirmed {
            // A violation that does not reproduce from its own replay file is not reported as
            // one: the run that produced it was not a function of (binary, case) - a simulator
            // defect, not evidence about the property. It is counted in the evidence file.
            unconfirmed += 1;
            new_violations -= 1;
            let _ = std::fs::rename(&path, format!("{path}.unconfirmed"));
            println!(
                "NOTE: {} oracle={} fired in {} run(s) but did not reproduce from its replay file; not reported (see DESIGN.md section 2.6)",
                prop, mv.oracle, unknown.len()
            );
            continue;
        }
        let _ = exact;
        println!(
            "VIOLATION property={} replay={} oracle={} instances={} minimised_steps={} confirmed_from_file={} :: {}",
            prop,
            path,
            mv.oracle,
            unknown.len(),
            mcase.steps.len() + mcase.sessions.iter().map(|s| s.len()).sum::<usize>(),
            confirmed,
            crate::world::first_line(&mv.detail)
        );
        if exit == 0 {
            exit = 1;
        }
    }
    for l in &known_lines {
        println!("{l}");
    }

    // 4. evidence
    let mut cov = sum.coverage.clone();
    cov["known_finding_hits"] = json!(known_hits);
    cov["unconfirmed_violation_classes"] = json!(unconfirmed);
    cov["violation_classes"] = json!(by_sig.keys().collect::<Vec<_>>());
    cov["runs_skipped_on_wall_clock_limit"] = json!(timeouts.len());
    let ev = json!({
        "property_id": prop,
        "tier": if tier == "thorough" { "thorough" } else { "quick" },
        "seed": seed,
        "level": level_of(prop),
        "coverage": cov,
        "assumptions": [
            "interleavings are explored at await/gate granularity on one thread; preemption inside a poll (multi-threaded runtime) is not modelled",
            "crash model: un-synced file tails may be lost, cut or zero-filled (in the runs that do not steer around known findings also with a page hole); directory entries and renames whose parent was not fsynced may be lost; operations on one file are kept in issue order",
            "the block cache never evicts on its own (moka's timers are not simulated); cache pressure is applied on demand through a guarded hook (C18 read order 3)",
            "blocking-pool jobs run inline on the scheduler thread, except in the C15 COPY FROM scenario (real reader thread, timing-independent verdict)",
            "egg's 5 s wall-clock limit is not reached by the generated queries"
        ],
        "wall_s": started.elapsed().as_secs_f64(),
        "violations": new_violations,
    });
    let _ = std::fs::create_dir_all(format!("{}/evidence", verif_root()));
    std::fs::write(
        format!("{}/evidence/{prop}.json", verif_root()),
        serde_json::to_string_pretty(&ev).unwrap(),
    )
    .expect("write evidence");
    println!(
        "{} {} seed={} runs={} evaluations={} distinct_nontrivial={} new_violations={} known_hits={:?} wall={:.1}s",
        prop,
        tier,
        seed,
        sum.runs,
        sum.evaluations,
        sum.distinct_nontrivial,
        new_violations,
        known_hits,
        started.elapsed().as_secs_f64()
    );
    exit
}
