//! `sched`: C08, C09, C10. Concurrent actors (client sessions, storage-level readers, the
//! compactor, the vacuum) run as real tokio tasks on the single simulator thread; every actor
//! parks at gates (harness gates before each statement / reader step, guarded repo gates inside
//! the engine) and a seeded scheduler releases exactly one parked actor - or advances the
//! simulated clock - per decision, after waiting for quiescence.

use std::collections::{BTreeMap, BTreeSet, HashSet};
use std::sync::{Arc, Mutex};
use std::time::Duration;

use risinglight::storage::{ScanOptions, Storage, StorageColumnRef, StorageImpl, Table, Transaction, TxnIterator};
use risinglight::verif::Controller;

use crate::case::*;
use crate::interpose::{self, Ev};
use crate::model::*;
use crate::run::Ctx;
use crate::world::*;

pub const REPO_SITES: &[&str] = &[
    "db.run.bound",
    "txn.start.before_pin",
    "txn.start.pinned",
    "txn.commit.flushed",
    "txn.commit.dv_written",
    "txn.scan.rowset",
    "txn.append.dir_created",
    "vm.commit.locked",
    "vm.commit.before_append",
    "vm.commit.after_append",
    "vacuum.begin",
    "vacuum.before_remove",
    "compactor.pass.begin",
    "compactor.pinned",
    "compactor.table.locked",
    "compactor.selected",
    "compactor.inputs_opened",
    "compactor.inputs_read",
    "compactor.before_commit",
    "compactor.committed",
    "ddl.create.persisted",
    "ddl.drop.applied",
    "ddl.drop.before_commit",
    "executor.item",
    "rowset.write.column",
];
pub const HARNESS_SITES: &[&str] = &["h.stmt", "h.reader.open", "h.reader.scan", "h.reader.batch"];

fn intern(site: &str) -> Option<&'static str> {
    REPO_SITES
        .iter()
        .chain(HARNESS_SITES.iter())
        .find(|s| **s == site)
        .copied()
}

#[derive(Clone, Debug)]
struct StmtRec {
    session: usize,
    stmt: Stmt,
    invoke: u64,
    ret: Option<u64>,
    outcome: Option<Outcome>,
}

#[derive(Clone, Debug, Default)]
struct ReaderRec {
    table: String,
    /// event sequence numbers around the pin
    before_pin: u64,
    after_pin: u64,
    done: Option<u64>,
    rows: Vec<Row>,
    error: Option<String>,
    /// row-set directories live (per manifest) when the reader pinned
    live: BTreeSet<String>,
    /// journal position when the reader pinned / finished
    j_pin: usize,
    j_done: Option<usize>,
    commits_during: u64,
}

#[derive(Default)]
struct Hist {
    seq: u64,
    stmts: Vec<StmtRec>,
    readers: Vec<ReaderRec>,
    finished: usize,
}

impl Hist {
    fn tick(&mut self) -> u64 {
        self.seq += 1;
        self.seq
    }
}

async fn hgate(ctl: &Arc<Ctl>, site: &'static str) {
    if let Some(f) = ctl.gate(site) {
        f.await;
    }
}

async fn session(db: Db, ctl: Arc<Ctl>, sh: Arc<Mutex<Hist>>, s: usize, stmts: Vec<Stmt>) {
    for st in stmts {
        hgate(&ctl, "h.stmt").await;
        let idx = {
            let mut h = sh.lock().unwrap();
            let invoke = h.tick();
            h.stmts.push(StmtRec {
                session: s,
                stmt: st.clone(),
                invoke,
                ret: None,
                outcome: None,
            });
            h.stmts.len() - 1
        };
        let out = db.exec(&st.sql()).await;
        let mut h = sh.lock().unwrap();
        let r = h.tick();
        h.stmts[idx].ret = Some(r);
        h.stmts[idx].outcome = Some(out);
    }
    sh.lock().unwrap().finished += 1;
}

/// Row-set directories that the manifest on disk currently lists as live.
fn manifest_live(root: &str) -> BTreeSet<String> {
    let mut live = BTreeSet::new();
    let Ok(data) = std::fs::read_to_string(format!("{root}/manifest.json")) else {
        return live;
    };
    let mut pending: Vec<(bool, String)> = vec![];
    for v in serde_json::Deserializer::from_str(&data).into_iter::<serde_json::Value>() {
        let Ok(v) = v else { break };
        if v == "Begin" {
            pending.clear();
        } else if v == "End" {
            for (add, d) in pending.drain(..) {
                if add {
                    live.insert(d);
                } else {
                    live.remove(&d);
                }
            }
        } else if let Some(e) = v.get("AddRowSet") {
            pending.push((
                true,
                format!("{}_{}", e["table_id"]["table_id"], e["rowset_id"]),
            ));
        } else if let Some(e) = v.get("DeleteRowSet") {
            pending.push((
                false,
                format!("{}_{}", e["table_id"]["table_id"], e["rowset_id"]),
            ));
        }
    }
    live
}

async fn reader(
    db: Db,
    ctl: Arc<Ctl>,
    sh: Arc<Mutex<Hist>>,
    root: String,
    table: String,
    ncols: u32,
    batches: Vec<usize>,
    sorted: bool,
) {
    hgate(&ctl, "h.reader.open").await;
    let mut rec = ReaderRec {
        table: table.clone(),
        ..Default::default()
    };
    let res: Result<(), String> = async {
        let StorageImpl::SecondaryStorage(s) = db.inner.verif_storage() else {
            return Err("not a disk database".into());
        };
        let Some(id) = s.get_catalog().get_table_id_by_name("postgres", &table) else {
            return Err("no-table".into());
        };
        let t = s.get_table(id).map_err(|_| "no-table".to_string())?;
        // what the reader pins is observed at the instant of the pin (other actors can run
        // between `read()` being called and the pin, and between the pin and its return)
        type PinObs = (u64, u64, std::collections::BTreeSet<String>, usize);
        let obs: Arc<Mutex<Option<PinObs>>> = Arc::new(Mutex::new(None));
        let me = tokio::task::id();
        {
            let (obs, sh, root) = (obs.clone(), sh.clone(), root.clone());
            ctl.watch_pin(
                me,
                Box::new(move || {
                    let (a, b) = {
                        let mut h = sh.lock().unwrap();
                        (h.tick(), h.tick())
                    };
                    *obs.lock().unwrap() = Some((a, b, manifest_live(&root), interpose::journal_len()));
                }),
            );
        }
        let started = t.read().await;
        ctl.unwatch_pin(me);
        let txn = match started {
            Ok(t) => t,
            // the table was dropped before the scan could start: not a scan that had started
            Err(e) if e.to_string().contains("NotFound") && obs.lock().unwrap().is_none() => {
                return Err("no-table".into());
            }
            Err(e) => return Err(e.to_string()),
        };
        let Some((before, after, live, j_pin)) = obs.lock().unwrap().take() else {
            return Err("pin was not observed".into());
        };
        rec.before_pin = before;
        rec.after_pin = after;
        rec.live = live;
        rec.j_pin = j_pin;
        hgate(&ctl, "h.reader.scan").await;
        let cols: Vec<StorageColumnRef> = (0..ncols).map(StorageColumnRef::Idx).collect();
        let mut it = txn
            .scan(&cols, ScanOptions::default().with_sorted(sorted))
            .await
            .map_err(|e| e.to_string())?;
        let mut bi = 0usize;
        loop {
            hgate(&ctl, "h.reader.batch").await;
            let n = if batches.is_empty() {
                None
            } else {
                Some(batches[bi % batches.len()].max(1))
            };
            bi += 1;
            match it.next_batch(n).await {
                Ok(Some(c)) => rec.rows.extend(data_chunk_rows(&c)),
                Ok(None) => break,
                Err(e) => return Err(e.to_string()),
            }
        }
        drop(it);
        let _ = txn.abort().await;
        Ok(())
    }
    .await;
    if let Err(e) = res {
        rec.error = Some(e);
    }
    let mut h = sh.lock().unwrap();
    rec.done = Some(h.tick());
    rec.j_done = Some(interpose::journal_len());
    h.readers.push(rec);
    h.finished += 1;
}

// ---------------------------------------------------------------------------------------------
// serial-order checker
// ---------------------------------------------------------------------------------------------

fn apply_if_ok(m: &Model, s: &Stmt) -> Option<Model> {
    if matches!(m.expect(s), Expect::Err(_)) {
        return None;
    }
    let mut n = m.clone();
    n.apply(s);
    Some(n)
}

fn state_key(m: &Model) -> String {
    let mut s = String::new();
    for (n, (d, rows)) in &m.tables {
        let mut r = rows.clone();
        r.sort();
        s.push_str(&format!("{n}/{}:{r:?};", d.cols.len()));
    }
    s
}

struct Search<'a> {
    stmts: &'a [StmtRec],
    /// indexes (into stmts) that must be executed
    must: Vec<usize>,
    /// indexes that may be executed
    may: Vec<usize>,
    base: &'a Model,
    /// also respect real-time order (a statement that returned before another was invoked
    /// precedes it); session order is always respected
    rt: bool,
    /// snapshot-isolation semantics for DELETE: its predicate is evaluated at a snapshot point
    /// and the rows captured there are removed at a later commit point
    si: bool,
    /// the row count a DELETE reports is a result that the order must reproduce (C10 only: the
    /// other properties speak of rows, not of counts)
    counts: bool,
    seen: HashSet<(u64, String, String)>,
    finals: Vec<Model>,
    budget: u64,
}

type Pending = BTreeMap<usize, Vec<Row>>;

impl Search<'_> {
    fn precedes(&self, o: &StmtRec, me: &StmtRec) -> bool {
        (o.session == me.session && o.invoke < me.invoke)
            || (self.rt && o.ret.is_some_and(|r| r < me.invoke))
    }

    /// May `i` start now, given the resolved (executed or left out) set?
    fn ready(&self, i: usize, resolved: u64) -> bool {
        let me = &self.stmts[i];
        for &j in self.must.iter() {
            if j == i || resolved & (1 << j) != 0 {
                continue;
            }
            if self.precedes(&self.stmts[j], me) {
                return false;
            }
        }
        true
    }

    fn dfs(&mut self, done: u64, skipped: u64, pending: &Pending, m: &Model) {
        if self.budget == 0 {
            return;
        }
        self.budget -= 1;
        if !self
            .seen
            .insert((done | (skipped << 32), state_key(m), format!("{pending:?}")))
        {
            return;
        }
        let all_must = self.must.iter().all(|i| done & (1 << i) != 0);
        if all_must && pending.is_empty() {
            self.finals.push(m.clone());
        }
        // commit a started DELETE / INSERT .. SELECT
        for (&i, rows) in pending {
            let st = &self.stmts[i];
            if let Stmt::InsertSelect { table, .. } = &st.stmt {
                let mut n = m.clone();
                if let Some((_, data)) = n.tables.get_mut(table) {
                    data.extend(rows.iter().cloned());
                } else {
                    continue; // table vanished: the insert could not have been acknowledged
                }
                let mut pn = pending.clone();
                pn.remove(&i);
                self.dfs(done | (1 << i), skipped, &pn, &n);
            }
            if let Stmt::Delete { table, .. } = &st.stmt {
                let mut n = m.clone();
                if let Some((_, data)) = n.tables.get_mut(table) {
                    for r in rows {
                        if let Some(p) = data.iter().position(|x| x == r) {
                            data.remove(p);
                        }
                    }
                } else {
                    continue; // table vanished: the delete could not have been acknowledged
                }
                let mut pn = pending.clone();
                pn.remove(&i);
                self.dfs(done | (1 << i), skipped, &pn, &n);
            }
        }
        let started: u64 = pending.keys().fold(0, |a, i| a | (1 << i));
        let cands: Vec<usize> = self
            .must
            .iter()
            .chain(self.may.iter())
            .copied()
            .filter(|i| (done | skipped | started) & (1 << i) == 0)
            .collect();
        for i in cands {
            if !self.ready(i, done | skipped) {
                continue;
            }
            let st = self.stmts[i].clone();
            // queries must see their recorded result at this point
            if let (Stmt::Select(q), Some(Outcome::Ok(rows))) = (&st.stmt, &st.outcome) {
                match m.eval_query(q) {
                    Expect::Rows { rows: want, .. } => {
                        if multiset_diff(rows, &want).is_some() {
                            continue;
                        }
                    }
                    _ => continue,
                }
                self.dfs(done | (1 << i), skipped, pending, m);
                continue;
            }
            // optional statements that precede `i` and have not run are thereby left out
            let mut sk = skipped;
            for &j in &self.may {
                if j != i && (done | started) & (1 << j) == 0 && self.precedes(&self.stmts[j], &st) {
                    sk |= 1 << j;
                }
            }
            // a DELETE reports how many rows it removed: that count is a result like a query's
            let reported: Option<i64> = match (&st.stmt, &st.outcome) {
                (Stmt::Delete { .. }, Some(Outcome::Ok(rows)))
                    if self.counts && rows.len() == 1 && rows[0].len() == 1 =>
                {
                    match &rows[0][0] {
                        Val::Int(n) => Some(*n),
                        _ => None,
                    }
                }
                _ => None,
            };
            if self.si {
                if let Stmt::InsertSelect { table, from, pred } = &st.stmt {
                    // snapshot point: the source rows are read now, appended at the commit point
                    if let (Some(_), Some((fdef, fdata))) = (m.tables.get(table), m.tables.get(from)) {
                        let rows: Vec<Row> =
                            fdata.iter().filter(|r| pred.holds(fdef, r)).cloned().collect();
                        let mut pn = pending.clone();
                        pn.insert(i, rows);
                        self.dfs(done, sk, &pn, m);
                    }
                    if self.may.contains(&i) {
                        self.dfs(done, skipped | (1 << i), pending, m);
                    }
                    continue;
                }
                if let Stmt::Delete { table, pred } = &st.stmt {
                    // snapshot point: capture the rows the predicate selects now
                    if let Some((def, data)) = m.tables.get(table) {
                        let rows: Vec<Row> =
                            data.iter().filter(|r| pred.holds(def, r)).cloned().collect();
                        if reported.is_none_or(|c| c == rows.len() as i64) {
                            let mut pn = pending.clone();
                            pn.insert(i, rows);
                            self.dfs(done, sk, &pn, m);
                        }
                    }
                    if self.may.contains(&i) {
                        self.dfs(done, skipped | (1 << i), pending, m);
                    }
                    continue;
                }
            }
            let count_ok = match (&st.stmt, reported) {
                (Stmt::Delete { table, pred }, Some(c)) => match m.tables.get(table) {
                    Some((def, data)) => data.iter().filter(|r| pred.holds(def, r)).count() as i64 == c,
                    None => true,
                },
                _ => true,
            };
            if count_ok {
                if let Some(n) = apply_if_ok(m, &st.stmt) {
                    self.dfs(done | (1 << i), sk, pending, &n);
                }
            }
            // an optional statement may also be left out (and then never runs)
            if self.may.contains(&i) {
                self.dfs(done, skipped | (1 << i), pending, m);
            }
        }
    }
}

/// All model states reachable by executing `must` (all of them) and any subset of `may`.
fn reachable(
    stmts: &[StmtRec],
    must: Vec<usize>,
    may: Vec<usize>,
    base: &Model,
    rt: bool,
    si: bool,
    counts: bool,
) -> (Vec<Model>, bool) {
    let mut s = Search {
        stmts,
        must,
        may,
        base,
        rt,
        si,
        counts,
        seen: HashSet::new(),
        finals: vec![],
        budget: 300_000,
    };
    let b = s.base.clone();
    s.dfs(0, 0, &Pending::new(), &b);
    let exhausted = s.budget == 0;
    (s.finals, exhausted)
}

/// Release parked background tasks one at a time, lowest ticket first, until none is parked.
async fn drain_background(cx: &mut Ctx) {
    for _ in 0..5000 {
        quiesce().await;
        let mut parked = cx.ctl.parked();
        parked.sort_by(|a, b| (a.1, a.0).cmp(&(b.1, b.0)));
        match parked.first() {
            Some((t, _, _)) => {
                cx.ctl.release(*t);
            }
            None => return,
        }
    }
    cx.probe("background-drain-budget-exhausted");
}

// ---------------------------------------------------------------------------------------------
// the engine
// ---------------------------------------------------------------------------------------------

pub async fn run(cx: &mut Ctx) {
    let prop = cx.case.prop.clone();
    let p = prop.as_str();
    let knobs = cx.case.knobs();
    let root = cx.root.clone();
    let t0 = tokio::time::Instant::now();
    let db = match Db::open(knobs.options(&root)).await {
        Ok(d) => d,
        Err(e) => {
            cx.harness_error = Some(format!("initial open failed: {e}"));
            return;
        }
    };
    // ---- setup (single session, no gates)
    let mut base = Model::default();
    for s in cx.case.setup.clone() {
        let o = db.exec(&s.sql()).await;
        quiesce().await;
        cx.log.push(format!("setup {} => {}", crate::genr::Step::Stmt(s.clone()).brief(), o.brief()));
        if o.is_ok() && !matches!(base.expect(&s), Expect::Err(_)) {
            base.apply(&s);
        }
    }
    let setup_adv = cx.case.param("setup_advance_ms", 0);
    if setup_adv > 0 {
        advance(Duration::from_millis(setup_adv as u64)).await;
    }
    cx.log.absorb_journal();

    // A panic while another panic unwinds (e.g. in a Drop impl) aborts the process: announce
    // what the supervisor should report in that case.
    {
        let mut r = RunResult {
            seed: cx.case.seed,
            ..Default::default()
        };
        r.violations.push(Violation::new(
            p,
            "process-aborted",
            None,
            "the process aborted during the concurrent phase (panic while panicking)".into(),
        ));
        crate::run::set_crumb(Some(&r));
    }

    // ---- gates on
    // Every actor is gated from birth: background tasks cannot start a pass without being
    // released, so no two actors are ever runnable at the same time.
    let mut sites: Vec<&'static str> = HARNESS_SITES.to_vec();
    sites.push("compactor.pass.begin");
    sites.push("vacuum.begin");
    for s in &cx.case.sites {
        if let Some(i) = intern(s) {
            sites.push(i);
        }
    }
    cx.ctl.set_gates(true, &sites);
    let sh = Arc::new(Mutex::new(Hist::default()));
    let mut actors = 0usize;
    for (s, stmts) in cx.case.sessions.clone().into_iter().enumerate() {
        actors += 1;
        tokio::spawn(session(db.clone(), cx.ctl.clone(), sh.clone(), s, stmts));
    }
    let nreaders = cx.case.param("readers", 0) as usize;
    let table_names: Vec<String> = base.tables.keys().cloned().collect();
    for r in 0..nreaders {
        if table_names.is_empty() {
            break;
        }
        actors += 1;
        let t = table_names[(cx.case.param("reader_table", 0) as usize + r) % table_names.len()].clone();
        let ncols = base.tables[&t].0.cols.len() as u32;
        let batches: Vec<usize> = match cx.case.param("reader_batch", 0) {
            0 => vec![],
            n => vec![n as usize, 1, (n as usize) * 3],
        };
        let sorted = base.tables[&t].0.pk.is_some() && (cx.case.param("reader_sorted", 0) + r as i64) % 2 == 1;
        tokio::spawn(reader(
            db.clone(),
            cx.ctl.clone(),
            sh.clone(),
            root.clone(),
            t,
            ncols,
            batches,
            sorted,
        ));
    }

    // ---- the scheduler
    let max_decisions = cx.case.param("max_decisions", 400) as u64;
    let max_advances = cx.case.param("max_advances", 6);
    let mut advances = 0i64;
    let mut idle = 0;
    let mut deadlock = false;
    let mut sched_trace: Vec<String> = vec![];
    loop {
        quiesce().await;
        let finished = sh.lock().unwrap().finished;
        if finished >= actors {
            break;
        }
        let mut parked = cx.ctl.parked();
        parked.sort_by(|a, b| (a.1, a.0).cmp(&(b.1, b.0)));
        if cx.stats.decisions >= max_decisions {
            // budget exhausted: let everything run freely to the end
            cx.probe("decision-budget-exhausted");
            cx.ctl.set_gates(false, &[]);
            cx.ctl.release_all();
            quiesce().await;
            let mut spins = 0;
            while sh.lock().unwrap().finished < actors && spins < 8 {
                advance(Duration::from_secs(1)).await;
                spins += 1;
            }
            if sh.lock().unwrap().finished < actors {
                deadlock = true;
            }
            break;
        }
        if parked.is_empty() {
            // nobody is parked at a gate, somebody is unfinished: only time can help
            idle += 1;
            if idle > 5 {
                deadlock = true;
                break;
            }
            advance(Duration::from_secs(1)).await;
            sched_trace.push("idle-advance".into());
            continue;
        }
        idle = 0;
        // time advances are offered in a quarter of the decisions only
        let can_advance = advances < max_advances && cx.decide(4) == 0;
        let nopt = parked.len() + usize::from(can_advance);
        let c = cx.decide(nopt);
        if c < parked.len() {
            // Parked actors are ordered by (site, arrival): the choice then means the same
            // actor even if two actors reached different gates in the other order.
            let (ticket, site, _) = &parked[c];
            let nth = parked[..c].iter().filter(|p| p.1 == *site).count();
            sched_trace.push(format!("{site}"));
            cx.log.push(format!("  sched: release {site}[{nth}]"));
            cx.ctl.release(*ticket);
            // Sometimes a second actor is released in the same step: the two then run side by
            // side until both are parked again, interleaving at every await in between (I/O
            // awaits included) and not only at gates.
            let pair_pct = cx.case.param("pair_pct", 0) as usize;
            if pair_pct > 0 && parked.len() >= 2 && cx.decide(100) < pair_pct {
                let rest: Vec<_> = parked.iter().enumerate().filter(|(i, _)| *i != c).collect();
                let (_, (ticket2, site2, _)) = rest[cx.decide(rest.len())];
                sched_trace.push(format!("+{site2}"));
                cx.log.push(format!("  sched: and release {site2} alongside"));
                cx.ctl.release(*ticket2);
            }
        } else {
            advances += 1;
            let ms = [1000u64, 1000, 2500, 60_000][cx.decide(4)];
            sched_trace.push(format!("advance{ms}"));
            cx.log.push(format!("  sched: advance {ms} ms"));
            tokio::time::sleep(Duration::from_millis(ms)).await;
        }
        cx.log.absorb_journal();
    }
    // ---- the foreground is done. From here on only background tasks (compactor, vacuum) and
    // the harness's own queries run; background tasks stay gated and are released one at a
    // time in ticket order (no seeded choice), so that two of them never run side by side.
    let bg_sites: Vec<&'static str> = REPO_SITES
        .iter()
        .copied()
        .filter(|s| s.starts_with("compactor.") || s.starts_with("vacuum.") || s.starts_with("vm.commit."))
        .collect();
    cx.ctl.set_gates(true, &bg_sites);
    drain_background(cx).await;
    cx.log.absorb_journal();
    cx.stats.schedule_hash = crate::rng::Fnv::of(sched_trace.join(",").as_bytes());

    let hist = {
        let h = sh.lock().unwrap();
        (h.stmts.clone(), h.readers.clone())
    };
    let (stmts, readers) = hist;
    for s in &stmts {
        cx.log.push(format!(
            "  s{} [{}..{}] {} => {}",
            s.session,
            s.invoke,
            s.ret.map(|r| r.to_string()).unwrap_or_else(|| "?".into()),
            crate::genr::Step::Stmt(s.stmt.clone()).brief(),
            s.outcome.as_ref().map(|o| o.brief()).unwrap_or_else(|| "unfinished".into())
        ));
    }
    cx.stats.statements = stmts.len() as u64;

    // ---- C10: a statement that scans one table twice sees one state of it
    if p == "C10" {
        for s in &stmts {
            if let (Stmt::Raw(sql), Some(Outcome::Ok(rows))) = (&s.stmt, &s.outcome) {
                if sql.contains(" NOT IN (SELECT ") && rows.first().and_then(|r| r.first()) != Some(&Val::Int(0)) {
                    cx.violate(Violation::new(
                        "C10",
                        "statement-saw-two-states",
                        None,
                        format!(
                            "session {} {sql} returned {} (events {}..{}): its two scans of the table saw different states, no serial order explains a non-zero count",
                            s.session,
                            rows_brief(rows, 2),
                            s.invoke,
                            s.ret.unwrap_or(0)
                        ),
                    ));
                    break;
                }
            }
        }
    }

    // ---- oracles common to the three properties: no deadlock, no panic
    if deadlock {
        let stuck: Vec<String> = stmts
            .iter()
            .filter(|s| s.ret.is_none())
            .map(|s| s.stmt.sql())
            .collect();
        cx.violate(Violation::new(
            p,
            "no-progress",
            None,
            format!(
                "after all gates were opened and 5+ simulated seconds passed, {} of {} actors had not finished; pending statements: {:?}",
                actors - sh.lock().unwrap().finished,
                actors,
                stuck
            ),
        ));
    }
    if p == "C10" {
        for s in &stmts {
            if let Some(Outcome::Panic(m)) = &s.outcome {
                cx.violate(
                    Violation::new(
                        "C10",
                        "session-panicked",
                        None,
                        format!("session {} panicked in {}: {m}", s.session, s.stmt.sql()),
                    )
                    .with_sig(&crate::hist::panic_site(m)),
                );
                break;
            }
        }
    }
    if p == "C10" && cx.vio.is_empty() {
        // A statement on a table that no session creates or drops in this run has no reason to
        // fail because of what the other sessions do to *other* tables. (Refusals that ask for a
        // retry - a DELETE whose row-sets were compacted under it - are documented behaviour.)
        let ddl_tables: BTreeSet<String> = stmts
            .iter()
            .filter_map(|s| match &s.stmt {
                Stmt::CreateTable(d) => Some(d.name.clone()),
                Stmt::DropTable { name } => Some(name.clone()),
                _ => None,
            })
            .collect();
        for s in &stmts {
            let table = match &s.stmt {
                Stmt::Select(q) => Some(q.table.clone()),
                Stmt::Insert { table, .. } | Stmt::Delete { table, .. } => Some(table.clone()),
                _ => None,
            };
            if let (Some(t), Some(Outcome::Err(e))) = (table, &s.outcome) {
                if !ddl_tables.contains(&t) && base.tables.contains_key(&t) && !e.contains("retry") {
                    cx.violate(
                        Violation::new(
                            "C10",
                            "unrelated-statement-failed",
                            None,
                            format!(
                                "session {}: {} failed with {e} although no session creates or drops {t}",
                                s.session,
                                s.stmt.sql()
                            ),
                        )
                        .with_sig(&crate::hist::err_class(&Outcome::Err(e.clone()))),
                    );
                    break;
                }
            }
        }
    }
    let bg_panics: Vec<String> = panics_since(0)
        .into_iter()
        .filter(|m| !m.contains("verif: injected"))
        .collect();

    // ---- final state
    let acked: Vec<usize> = (0..stmts.len())
        .filter(|i| matches!(stmts[*i].outcome, Some(Outcome::Ok(_))))
        .collect();
    let names: BTreeSet<String> = base
        .tables
        .keys()
        .cloned()
        .chain(stmts.iter().filter_map(|s| match &s.stmt {
            Stmt::CreateTable(d) => Some(d.name.clone()),
            _ => None,
        }))
        .collect();
    let mut observed: BTreeMap<String, Option<Vec<Row>>> = BTreeMap::new();
    for n in &names {
        let o = db.exec(&format!("SELECT * FROM {n}")).await;
        drain_background(cx).await;
        if let Outcome::Panic(m) = &o {
            cx.violate(
                Violation::new(p, "final-read-panicked", None, format!("SELECT * FROM {n}: {m}"))
                    .with_sig(&crate::hist::panic_site(m)),
            );
        }
        observed.insert(
            n.clone(),
            o.rows().map(|r| {
                let mut r = r.clone();
                r.sort();
                r
            }),
        );
    }
    let obs_matches = |m: &Model| {
        observed.iter().all(|(n, got)| match (got, m.tables.get(n)) {
            (Some(g), Some((_, w))) => {
                let mut w = w.clone();
                w.sort();
                *g == w
            }
            (None, None) => true,
            _ => false,
        })
    };
    let describe = |o: &BTreeMap<String, Option<Vec<Row>>>| {
        o.iter()
            .map(|(n, r)| match r {
                Some(r) => format!("{n}:{}[{}]", r.len(), rows_brief(r, 8)),
                None => format!("{n}:absent"),
            })
            .collect::<Vec<_>>()
            .join(" ")
    };

    if (p == "C09" || p == "C10") && !deadlock && cx.vio.is_empty() {
        cx.stats.evaluations += 1;
        if acked.len() <= 14 {
            let (finals, exhausted) = reachable(&stmts, acked.clone(), vec![], &base, false, false, p == "C10");
            let explained = !finals.is_empty() && finals.iter().any(obs_matches);
            if exhausted {
                cx.probe("serial-search-budget-exhausted");
            } else if !explained {
                // Is the history at least what snapshot isolation allows (a DELETE evaluates
                // its predicate on the snapshot taken when it starts)?
                let (si_finals, si_exh) = reachable(&stmts, acked.clone(), vec![], &base, false, true, p == "C10");
                let si_ok = !si_exh && si_finals.iter().any(obs_matches);
                let want: Vec<String> = finals
                    .iter()
                    .take(3)
                    .map(|m| {
                        m.tables
                            .iter()
                            .map(|(n, (_, r))| {
                                let mut r = r.clone();
                                r.sort();
                                format!("{n}:{}[{}]", r.len(), rows_brief(&r, 8))
                            })
                            .collect::<Vec<_>>()
                            .join(" ")
                    })
                    .collect();
                let what = if finals.is_empty() {
                    "no total order of the acknowledged statements respecting session order reproduces every query result".to_string()
                } else {
                    format!(
                        "final state {} is not the result of any serial order of the acknowledged statements; e.g. {}",
                        describe(&observed),
                        want.join("  |  ")
                    )
                };
                if si_ok {
                    cx.violate(Violation::new(
                        p,
                        "not-serializable-but-snapshot-isolation",
                        None,
                        format!("{what} (the history is explained if each DELETE evaluates its predicate on the snapshot taken when it started)"),
                    ));
                } else {
                    cx.violate(Violation::new(
                        p,
                        if finals.is_empty() {
                            "no-serial-order-explains-results"
                        } else {
                            "final-state-not-serializable"
                        },
                        None,
                        format!("{what} (not explained by snapshot isolation either)"),
                    ));
                }
            }
        } else {
            cx.probe("too-many-statements-for-serial-search");
        }
    }

    // ---- C08: readers
    if p == "C08" {
        let journal = interpose::journal_snapshot();
        for r in &readers {
            cx.stats.evaluations += 1;
            if let Some(e) = &r.error {
                if e == "no-table" {
                    cx.probe("reader-found-no-table");
                    continue;
                }
                cx.violate(
                    Violation::new(
                        "C08",
                        "reader-failed",
                        None,
                        format!("scan of {} failed while other actors ran: {}", r.table, first_line(e)),
                    )
                    .with_sig(&crate::hist::err_class(&Outcome::Err(e.clone()))),
                );
                continue;
            }
            // files of the pinned version must not be removed while the reader is active
            let (j0, j1) = (r.j_pin, r.j_done.unwrap_or(journal.len()));
            for e in &journal[j0.min(journal.len())..j1.min(journal.len())] {
                if let Ev::Rmdir { path } | Ev::Unlink { path } = e {
                    let dir = path.split('/').next().unwrap_or("");
                    if r.live.contains(dir) {
                        cx.violate(Violation::new(
                            "C08",
                            "file-removed-under-reader",
                            None,
                            format!(
                                "{} was removed while a reader of {} that pinned a version containing it was still running",
                                path, r.table
                            ),
                        ));
                        break;
                    }
                }
            }
            // snapshot: rows == table state after the statements acknowledged before the pin,
            // plus any subset of those in flight around the pin
            let on_table = |s: &StmtRec| match &s.stmt {
                Stmt::Insert { table, .. } | Stmt::Delete { table, .. } | Stmt::InsertSelect { table, .. } => *table == r.table,
                Stmt::DropTable { name } => *name == r.table,
                Stmt::CreateTable(d) => d.name == r.table,
                _ => false,
            };
            let mut must = vec![];
            let mut may = vec![];
            for (i, s) in stmts.iter().enumerate() {
                if !on_table(s) {
                    continue;
                }
                let ok = matches!(s.outcome, Some(Outcome::Ok(_)));
                if s.ret.is_some_and(|x| x < r.before_pin) {
                    if ok {
                        must.push(i);
                    }
                } else if s.invoke < r.after_pin {
                    // in flight around the pin: may or may not be in the snapshot
                    // (also when it later failed: it cannot have been visible then)
                    if ok {
                        may.push(i);
                    }
                }
            }
            if must.len() + may.len() > 14 {
                cx.probe("too-many-statements-for-reader-search");
                continue;
            }
            let (finals, exhausted) = reachable(&stmts, must, may, &base, true, true, false);
            if exhausted {
                cx.probe("serial-search-budget-exhausted");
                continue;
            }
            let mut got = r.rows.clone();
            got.sort();
            let ok = finals.iter().any(|m| match m.tables.get(&r.table) {
                Some((_, w)) => {
                    let mut w = w.clone();
                    w.sort();
                    w == got
                }
                None => false,
            });
            if !ok {
                let want: Vec<String> = finals
                    .iter()
                    .take(4)
                    .map(|m| match m.tables.get(&r.table) {
                        Some((_, w)) => {
                            let mut w = w.clone();
                            w.sort();
                            format!("{}[{}]", w.len(), rows_brief(&w, 8))
                        }
                        None => "absent".into(),
                    })
                    .collect();
                cx.violate(Violation::new(
                    "C08",
                    "reader-snapshot-wrong",
                    None,
                    format!(
                        "reader of {} (pinned between events {} and {}) returned {}[{}]; possible snapshots: {}",
                        r.table,
                        r.before_pin,
                        r.after_pin,
                        got.len(),
                        rows_brief(&got, 8),
                        want.join(" | ")
                    ),
                ));
            }
            // non-trivial: something was committed or removed while the reader ran
            let moved = journal[j0.min(journal.len())..j1.min(journal.len())]
                .iter()
                .any(|e| matches!(e, Ev::Write { path, .. } if path.contains("manifest")) || matches!(e, Ev::Rmdir { .. }));
            if moved {
                cx.stats.nontrivial = true;
                cx.probe("commit-or-vacuum-during-reader");
            }
        }
    }
    // ---- C08: SQL-level readers (SELECT * issued by a session): the rows must be a snapshot
    // taken somewhere between the statement's invocation and its return
    if p == "C08" {
        for (ri, r) in stmts.iter().enumerate() {
            let (Stmt::Select(q), Some(Outcome::Ok(rows)), Some(ret)) = (&r.stmt, &r.outcome, r.ret) else {
                continue;
            };
            if q.count || !q.pred.0.is_empty() {
                continue;
            }
            cx.stats.evaluations += 1;
            let on_table = |s: &StmtRec| match &s.stmt {
                Stmt::Insert { table, .. } | Stmt::Delete { table, .. } | Stmt::InsertSelect { table, .. } => *table == q.table,
                Stmt::DropTable { name } => *name == q.table,
                Stmt::CreateTable(d) => d.name == q.table,
                _ => false,
            };
            let mut must = vec![];
            let mut may = vec![];
            for (i, s) in stmts.iter().enumerate() {
                if i == ri || !on_table(s) || !matches!(s.outcome, Some(Outcome::Ok(_))) {
                    continue;
                }
                if s.ret.is_some_and(|x| x < r.invoke) {
                    must.push(i);
                } else if s.invoke < ret {
                    may.push(i);
                }
            }
            if must.len() + may.len() > 14 {
                cx.probe("too-many-statements-for-reader-search");
                continue;
            }
            let (finals, exhausted) = reachable(&stmts, must, may, &base, true, true, false);
            if exhausted {
                cx.probe("serial-search-budget-exhausted");
                continue;
            }
            let mut got = rows.clone();
            got.sort();
            let ok = finals.iter().any(|m| match m.tables.get(&q.table) {
                Some((_, w)) => {
                    let mut w = w.clone();
                    w.sort();
                    w == got
                }
                None => false,
            });
            if !ok {
                let want: Vec<String> = finals
                    .iter()
                    .take(4)
                    .map(|m| match m.tables.get(&q.table) {
                        Some((_, w)) => {
                            let mut w = w.clone();
                            w.sort();
                            format!("{}[{}]", w.len(), rows_brief(&w, 8))
                        }
                        None => "absent".into(),
                    })
                    .collect();
                cx.violate(Violation::new(
                    "C08",
                    "sql-reader-snapshot-wrong",
                    None,
                    format!(
                        "session {} SELECT * FROM {} (events {}..{}) returned {}[{}]; possible snapshots: {}",
                        r.session,
                        q.table,
                        r.invoke,
                        ret,
                        got.len(),
                        rows_brief(&got, 8),
                        want.join(" | ")
                    ),
                ));
            }
            cx.probe("sql-reader-checked");
        }
    }
    if !bg_panics.is_empty() && cx.vio.is_empty() {
        // a panic in a background task (compactor, vacuum) or an operator task
        let m = &bg_panics[0];
        if p == "C10" || p == "C09" || p == "C08" {
            cx.violate(
                Violation::new(
                    p,
                    "task-panicked",
                    None,
                    format!("a task panicked during the concurrent phase: {m}"),
                )
                .with_sig(&crate::hist::panic_site(m)),
            );
        }
    }

    // ---- shutdown + reopen shows the same state (C09, C10)
    let sd = {
        let d = db.clone();
        let h = tokio::spawn(async move { d.shutdown().await });
        let mut n = 0;
        loop {
            quiesce().await;
            if h.is_finished() || n > 5000 {
                break;
            }
            n += 1;
            let mut parked = cx.ctl.parked();
            parked.sort_by(|a, b| (a.1, a.0).cmp(&(b.1, b.0)));
            match parked.first() {
                Some((t, _, _)) => {
                    cx.ctl.release(*t);
                }
                None => {
                    // the compactor sleeps until its next pass
                    tokio::time::sleep(Duration::from_secs(1)).await;
                }
            }
        }
        cx.ctl.set_gates(false, &[]);
        cx.ctl.release_all();
        h.await.unwrap_or_else(|_| Err("shutdown panicked".into()))
    };
    drop(db);
    quiesce().await;
    cx.log.absorb_journal();
    if (p == "C09" || p == "C10") && cx.vio.is_empty() {
        if let Err(e) = sd {
            cx.violate(Violation::new(p, "shutdown-failed", None, format!("shutdown: {e}")));
        }
        match Db::open(knobs.options(&root)).await {
            Ok(db2) => {
                let mut after: BTreeMap<String, Option<Vec<Row>>> = BTreeMap::new();
                for n in &names {
                    let o = db2.exec(&format!("SELECT * FROM {n}")).await;
                    after.insert(
                        n.clone(),
                        o.rows().map(|r| {
                            let mut r = r.clone();
                            r.sort();
                            r
                        }),
                    );
                }
                cx.stats.evaluations += 1;
                if after != observed {
                    cx.violate(Violation::new(
                        p,
                        "state-changed-across-reopen",
                        None,
                        format!("before shutdown {} ; after reopen {}", describe(&observed), describe(&after)),
                    ));
                }
                let _ = db2.shutdown().await;
            }
            Err(e) => {
                cx.violate(
                    Violation::new(
                        p,
                        "reopen-failed",
                        None,
                        format!("reopen after the concurrent phase failed: {}", first_line(&e)),
                    )
                    .with_sig(&crate::hist::panic_site(&e)),
                );
            }
        }
    }

    // non-triviality for C09 / C10
    if p == "C09" {
        let g = cx.ctl.with(|c| c.gate_hits.get("compactor.before_commit").copied().unwrap_or(0));
        let overlapped = sched_trace.iter().any(|s| s.starts_with("compactor."))
            && sched_trace.iter().any(|s| s.starts_with("h.stmt") || s.starts_with("txn.") || s.starts_with("vm."));
        cx.stats.nontrivial = g > 0 && overlapped;
        if cx.stats.nontrivial {
            cx.probe("compaction-overlapped-dml");
        }
    }
    if p == "C10" {
        // at least two sessions had statements in flight at the same time
        cx.stats.nontrivial = stmts.iter().any(|a| {
            stmts
                .iter()
                .any(|b| a.session != b.session && a.invoke < b.invoke && a.ret.is_none_or(|r| r > b.invoke))
        });
    }
    crate::run::set_crumb(None);
    cx.stats.sim_ns = now_ns(t0) as u64;
    cx.stats
        .probes
        .insert("scheduler-advances".into(), advances as u64);
}
