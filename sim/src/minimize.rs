//! Minimisation of a failing case: keep shrinking the workload, the schedule and the fault
//! plan while a violation of the same class (same `sig`) persists. Candidates are evaluated in
//! parallel, each in its own child process.

use crate::case::*;
use crate::genr::Step;
use crate::model::Stmt;
use crate::sup::eval_cases;

fn still_fails(r: &RunResult, sig: &str) -> bool {
    r.violations.iter().any(|v| v.sig == sig)
}

/// Candidate reductions of `c`, roughly most aggressive first.
fn candidates(c: &Case) -> Vec<Case> {
    let mut out = vec![];
    // drop chunks of steps
    let n = c.steps.len();
    let mut chunk = n / 2;
    while chunk >= 1 {
        let mut start = 0;
        while start < n {
            let end = (start + chunk).min(n);
            let mut d = c.clone();
            d.steps.drain(start..end);
            if !d.steps.is_empty() || d.sessions.iter().any(|s| !s.is_empty()) {
                out.push(d);
            }
            start = end;
        }
        if chunk == 1 {
            break;
        }
        chunk /= 2;
    }
    // drop setup statements / session statements / whole sessions
    for i in 0..c.setup.len() {
        let mut d = c.clone();
        d.setup.remove(i);
        out.push(d);
    }
    for s in 0..c.sessions.len() {
        if c.sessions.len() > 1 {
            let mut d = c.clone();
            d.sessions.remove(s);
            out.push(d);
        }
        for i in 0..c.sessions[s].len() {
            let mut d = c.clone();
            d.sessions[s].remove(i);
            // explicit faults of the fault engine address statements of session 0 by index
            if s == 0 {
                let fix = |st: usize| {
                    if st == i {
                        None
                    } else if st > i {
                        Some(st - 1)
                    } else {
                        Some(st)
                    }
                };
                let had = !d.op_faults.is_empty() || !d.io_faults.is_empty();
                d.op_faults = d
                    .op_faults
                    .iter()
                    .filter_map(|f| fix(f.step).map(|st| OpFaultSpec { step: st, ..f.clone() }))
                    .collect();
                d.io_faults = d
                    .io_faults
                    .iter()
                    .filter_map(|f| fix(f.step).map(|st| IoFaultSpec { step: st, ..f.clone() }))
                    .collect();
                if had && d.op_faults.is_empty() && d.io_faults.is_empty() {
                    continue; // would silently fall back to a derived fault plan
                }
            }
            out.push(d);
        }
    }
    // shrink inserts
    let shrink_stmt = |s: &Stmt| -> Option<Stmt> {
        if let Stmt::Insert { table, cols, rows } = s {
            if rows.len() > 1 {
                return Some(Stmt::Insert {
                    table: table.clone(),
                    cols: cols.clone(),
                    rows: rows[..rows.len() / 2].to_vec(),
                });
            }
        }
        None
    };
    for (i, st) in c.steps.iter().enumerate() {
        if let Step::Stmt(s) = st {
            if let Some(s2) = shrink_stmt(s) {
                let mut d = c.clone();
                d.steps[i] = Step::Stmt(s2);
                out.push(d);
            }
            if let Stmt::Insert { table, cols, rows } = s {
                if rows.len() > 1 {
                    let mut d = c.clone();
                    d.steps[i] = Step::Stmt(Stmt::Insert {
                        table: table.clone(),
                        cols: cols.clone(),
                        rows: rows[rows.len() / 2..].to_vec(),
                    });
                    out.push(d);
                }
            }
        }
        if let Step::Advance { ms } = st {
            if *ms > 1000 {
                let mut d = c.clone();
                d.steps[i] = Step::Advance { ms: 1000 };
                out.push(d);
            }
        }
    }
    for s in 0..c.sessions.len() {
        for i in 0..c.sessions[s].len() {
            if let Some(s2) = shrink_stmt(&c.sessions[s][i]) {
                let mut d = c.clone();
                d.sessions[s][i] = s2;
                out.push(d);
            }
        }
    }
    for i in 0..c.setup.len() {
        if let Some(s2) = shrink_stmt(&c.setup[i]) {
            let mut d = c.clone();
            d.setup[i] = s2;
            out.push(d);
        }
    }
    // fault plan
    for i in 0..c.crash_points.len() {
        if c.crash_points.len() > 1 {
            let mut d = c.clone();
            d.crash_points = vec![c.crash_points[i].clone()];
            out.push(d);
        }
        if c.crash_points[i].second.is_some() {
            let mut d = c.clone();
            d.crash_points[i].second = None;
            out.push(d);
        }
        if c.crash_points[i].hole {
            let mut d = c.clone();
            d.crash_points[i].hole = false;
            out.push(d);
        }
        if c.crash_points[i].lose_dirents > 0 {
            let mut d = c.clone();
            d.crash_points[i].lose_dirents = 0;
            out.push(d);
        }
        if c.crash_points[i].lose_unsynced {
            let mut d = c.clone();
            d.crash_points[i].lose_unsynced = false;
            out.push(d);
        }
    }
    for i in 0..c.op_faults.len() {
        if c.op_faults.len() > 1 {
            let mut d = c.clone();
            d.op_faults.remove(i);
            out.push(d);
        }
    }
    for i in 0..c.io_faults.len() {
        if c.io_faults.len() > 1 {
            let mut d = c.clone();
            d.io_faults.remove(i);
            out.push(d);
        }
    }
    for i in 0..c.corruptions.len() {
        if c.corruptions.len() > 1 {
            let mut d = c.clone();
            d.corruptions.remove(i);
            out.push(d);
        }
    }
    // schedule: truncate, then zero single decisions (0 = "first enabled alternative")
    if !c.decisions.is_empty() {
        let mut d = c.clone();
        d.decisions.truncate(c.decisions.len() / 2);
        out.push(d);
        let mut d = c.clone();
        d.decisions.pop();
        out.push(d);
        for i in 0..c.decisions.len() {
            if c.decisions[i] != 0 {
                let mut d = c.clone();
                d.decisions[i] = 0;
                out.push(d);
            }
        }
    }
    // knobs back to the defaults
    if let Some(k) = &c.knobs {
        let def = crate::world::Knobs::default_cli();
        macro_rules! try_knob {
            ($f:ident) => {
                if k.$f != def.$f {
                    let mut d = c.clone();
                    d.knobs.as_mut().unwrap().$f = def.$f.clone();
                    out.push(d);
                }
            };
        }
        try_knob!(block_size);
        try_knob!(rowset_size);
        try_knob!(record_first_key);
        try_knob!(checksum);
        try_knob!(cache);
        try_knob!(io_backend);
    }
    out
}

/// Greedy parallel minimisation. `budget_runs` bounds the number of candidate runs.
pub fn minimise(case: &Case, first: &RunResult, sig: &str, workers: usize, budget_runs: usize) -> (Case, RunResult) {
    // Pin the schedule actually taken so that workload reductions keep the same choices.
    let mut best = case.clone();
    best.decisions = first.decisions.clone();
    best.params.insert("pinned_schedule".into(), 1);
    let mut best_res = first.clone();
    {
        let r = eval_cases(std::slice::from_ref(&best), 1, 120);
        if still_fails(&r[0], sig) {
            best_res = r[0].clone();
        } else {
            // the pinned form does not reproduce (should not happen): keep the original
            best = case.clone();
        }
    }
    let mut used = 0usize;
    loop {
        let cands = candidates(&best);
        if cands.is_empty() || used >= budget_runs {
            break;
        }
        let mut improved = false;
        for batch in cands.chunks(workers.max(1) * 2) {
            if used >= budget_runs {
                break;
            }
            used += batch.len();
            let rs = eval_cases(batch, workers, 120);
            if let Some((c, r)) = batch
                .iter()
                .zip(rs.iter())
                .find(|(_, r)| r.harness_error.is_none() && still_fails(r, sig))
            {
                best = c.clone();
                best.decisions = r.decisions.clone();
                best_res = r.clone();
                improved = true;
                break;
            }
        }
        if !improved {
            break;
        }
    }
    (best, best_res)
}
