fn main() {
    // Export the interposed libc symbols (getrandom in particular is looked up with dlsym by std).
    println!("cargo::rustc-link-arg-bins=-rdynamic");
}
